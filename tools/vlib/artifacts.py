"""Hand-assembled forge artifacts for end-to-end runs of the real halmos without forge/solc.

    from vlib import asm
    from vlib.artifacts import Fn, TestContract, run_contract_offline, run_main_offline

    c = TestContract("T", [Fn("check_ok(uint256 x)", asm.return_empty()),
                           Fn("check_bad(uint256 x)", asm.if_then(asm.eq_const(asm.calldata_arg(0), 42), asm.panic(1)) + ["STOP"])])
    run = run_contract_offline(c)                       # real halmos.__main__.run_contract, real solver (z3)
    run.results -> [TestResult(name='check_bad(uint256)', exitcode=1, ...), TestResult('check_ok(uint256)', 0, ...)]
    run.stdout, run.warnings, run.errors, run.by_name["check_bad(uint256)"].exitcode

`build(desc)` assembles dispatcher + bodies (+ creation code that returns the runtime) and fabricates the forge JSON
(abi, methodIdentifiers, bytecode, deployedBytecode, metadata.output.devdoc, ast with ContractDefinition/documentation).
`make_contract_context` mirrors what `halmos.__main__._main` does per contract; `run_main_offline` drives the real `_main`
(fake `forge` on PATH + a fabricated `out/` directory) and returns its MainResult (process exit code).

halmos is imported from $HALMOS_REPO/src via vlib.impl.use_repo().
"""
from __future__ import annotations

import contextlib
import gc
import io
import json
import logging
import os
import re
import shutil
import signal
import stat
import sys
import tempfile
import threading
import time
from dataclasses import dataclass, field
from pathlib import Path

if __name__ == "__main__" and __package__ is None:  # `python tools/vlib/artifacts.py`
    sys.path.insert(0, str(Path(__file__).resolve().parents[1]))
    __package__ = "vlib"

from . import asm  # noqa: E402
from .impl import use_repo  # noqa: E402

Z3_COMMAND = "z3"
YICES_COMMAND = "/venv/bin/yices-smt2 --smt2-model-format --bvconst-in-decimal"
COMPILER_VERSION = "0.8.26+commit.8a97fa7a"

# ------------------------------------------------------------------------------------------------ description


@dataclass
class Fn:
    """One external function. `sig` may carry parameter names: "check_bad(uint256 x, address who)"."""

    sig: str
    body: list  # asm items; entered with an empty stack (the dispatcher's selector copy is popped)
    devdoc: str | None = None  # text of `/// @custom:halmos ...` on the function (e.g. "--loop 3")
    mutability: str = "nonpayable"
    outputs: list = field(default_factory=list)  # ABI outputs, e.g. [{"name": "", "type": "uint256", "internalType": "uint256"}]


@dataclass
class TestContract:
    name: str
    functions: list
    natspec: str | None = None  # contract-level documentation text, e.g. "@custom:halmos --early-exit"
    constructor: list | None = None  # asm items run at creation time before returning the runtime
    file: str | None = None  # source file name (directory under out/); default "<name>.t.sol"
    fallback: list | None = None  # asm for unmatched selectors (default revert)
    extra_abi: list = field(default_factory=list)  # extra ABI items (events, errors …)
    extra_identifiers: dict = field(default_factory=dict)  # extra methodIdentifiers (sig -> selector hex) not in the dispatcher
    contract_kind: str = "contract"
    abstract: bool = False
    runtime_override: bytes | None = None  # use these bytes as runtime instead of dispatcher + bodies
    push0: bool = True

    @property
    def filename(self) -> str:
        return self.file or f"{self.name}.t.sol"


# ------------------------------------------------------------------------------------------------ signature parsing


def _split_top(s: str) -> list[str]:
    out, depth, cur = [], 0, ""
    for ch in s:
        if ch == "(":
            depth += 1
        elif ch == ")":
            depth -= 1
        if ch == "," and depth == 0:
            out.append(cur)
            cur = ""
        else:
            cur += ch
    if cur.strip():
        out.append(cur)
    return [x.strip() for x in out]


def _parse_param(p: str, idx: int) -> dict:
    p = p.strip()
    if p.startswith("("):
        depth = 0
        for i, ch in enumerate(p):
            depth += ch == "("
            depth -= ch == ")"
            if depth == 0:
                break
        inner, rest = p[1:i], p[i + 1:]
        m = re.match(r"^((?:\[[0-9]*\])*)\s*(\w*)$", rest.strip())
        suffix, name = m.group(1), m.group(2)
        comps = [_parse_param(x, j) for j, x in enumerate(_split_top(inner))]
        return {"name": name or f"arg{idx}", "type": "tuple" + suffix, "internalType": "struct S" + suffix, "components": comps}
    parts = p.split()
    typ = parts[0]
    name = parts[-1] if len(parts) > 1 else f"arg{idx}"
    if typ == "uint":
        typ = "uint256"
    if typ == "int":
        typ = "int256"
    return {"name": name, "type": typ, "internalType": typ}


def _canon_type(item: dict) -> str:
    t = item["type"]
    if t.startswith("tuple"):
        return "(" + ",".join(_canon_type(c) for c in item["components"]) + ")" + t[5:]
    return t


def parse_sig(sig: str) -> tuple[str, str, list[dict]]:
    """'f(uint256 x, (address,uint8)[] p)' -> (name, canonical signature, ABI inputs)"""
    m = re.match(r"^\s*(\w+)\s*\((.*)\)\s*$", sig, flags=re.S)
    if not m:
        raise ValueError(f"bad signature {sig!r}")
    name, inner = m.group(1), m.group(2).strip()
    inputs = [_parse_param(p, i) for i, p in enumerate(_split_top(inner))] if inner else []
    canon = name + "(" + ",".join(_canon_type(i) for i in inputs) + ")"
    return name, canon, inputs


# ------------------------------------------------------------------------------------------------ building


@dataclass
class Built:
    desc: TestContract
    runtime: bytes
    creation: bytes
    abi: list
    method_identifiers: dict
    contract_json: dict
    labels: dict
    natspec: dict | None


def build(desc: TestContract, file_id: int = 0) -> Built:
    table, bodies, abi, ids, devdoc_methods, ast_fns = {}, [], [], {}, {}, []
    for i, fn in enumerate(desc.functions):
        name, canon, inputs = parse_sig(fn.sig)
        sel = asm.selector(canon)
        lab = f"fn_{i}_{name}"
        if sel in table:
            raise ValueError(f"selector clash for {canon}")
        table[sel] = lab
        bodies += asm.function_body(lab, list(fn.body) + ["STOP"])
        abi.append({"type": "function", "name": name, "inputs": inputs, "outputs": list(fn.outputs), "stateMutability": fn.mutability})
        ids[canon] = f"{sel:08x}"
        if fn.devdoc is not None:
            devdoc_methods[canon] = {"custom:halmos": fn.devdoc}
        ast_fns.append({
            "nodeType": "FunctionDefinition", "name": name, "kind": "function", "functionSelector": f"{sel:08x}",
            "visibility": "public", "stateMutability": fn.mutability, "nodes": [],
        })
    labels: dict = {}
    if desc.runtime_override is not None:
        runtime = bytes(desc.runtime_override)
    else:
        runtime = asm.assemble(asm.dispatcher(table, desc.fallback) + bodies, push0=desc.push0, labels_out=labels)
    creation = asm.creation_code(runtime, desc.constructor)
    abi += list(desc.extra_abi)
    ids.update(desc.extra_identifiers)
    natspec = {"id": 1, "nodeType": "StructuredDocumentation", "text": desc.natspec} if desc.natspec is not None else None
    path = f"test/{desc.filename}"
    cdef = {
        "nodeType": "ContractDefinition", "name": desc.name, "contractKind": desc.contract_kind, "abstract": desc.abstract,
        "nodes": ast_fns, "id": 2,
    }
    if natspec is not None:
        cdef["documentation"] = natspec
    contract_json = {
        "abi": abi,
        "bytecode": {"object": asm.hexcode(creation), "sourceMap": "", "linkReferences": {}},
        "deployedBytecode": {"object": asm.hexcode(runtime), "sourceMap": "", "linkReferences": {}, "immutableReferences": {}},
        "methodIdentifiers": ids,
        "rawMetadata": "",
        "metadata": {
            "compiler": {"version": COMPILER_VERSION},
            "language": "Solidity",
            "output": {"abi": abi, "devdoc": {"kind": "dev", "methods": devdoc_methods, "version": 1},
                       "userdoc": {"kind": "user", "methods": {}, "version": 1}},
            "settings": {"compilationTarget": {path: desc.name}},
            "sources": {path: {}},
            "version": 1,
        },
        "storageLayout": {"storage": [], "types": {}},
        "id": file_id,
        "ast": {"absolutePath": path, "id": 3, "nodeType": "SourceUnit", "src": "0:0:0", "exportedSymbols": {desc.name: [2]},
                "nodes": [cdef]},
    }
    return Built(desc, runtime, creation, abi, ids, contract_json, labels, natspec)


def contract_type_of(desc: TestContract) -> str:
    return ("abstract " if desc.abstract else "") + desc.contract_kind


def make_build_out_map(descs) -> tuple[dict, dict]:
    """-> (build_out_map {file: {name: (json, type, natspec)}}, {name: Built})"""
    out, built = {}, {}
    for i, d in enumerate(descs):
        b = build(d, file_id=i)
        built[d.name] = b
        out.setdefault(d.filename, {})[d.name] = (b.contract_json, contract_type_of(d), b.natspec)
    return out, built


def write_forge_out(descs, root, out_dir="out") -> dict:
    """Write out/<file>/<Name>.json the way `forge build` would; returns {name: Built}."""
    built = {}
    for i, d in enumerate(descs):
        b = build(d, file_id=i)
        built[d.name] = b
        p = Path(root) / out_dir / d.filename
        p.mkdir(parents=True, exist_ok=True)
        (p / f"{d.name}.json").write_text(json.dumps(b.contract_json))
    return built


# ------------------------------------------------------------------------------------------------ halmos state


def _halmos():
    use_repo()
    import halmos.__main__ as hm

    return hm


def reset_halmos_state():
    """Reset singletons / global registries that would leak between in-process runs."""
    use_repo()
    import halmos.logs as hlogs
    import halmos.mapper as hmap

    for cls in (hmap.Mapper, hmap.BuildOut, hmap.DeployAddressMapper, hmap.SourceFileMap):
        hmap.SingletonMeta._instances.pop(cls, None)
    for flt in hlogs.logger_unique.filters:
        if hasattr(flt, "records"):
            flt.records.clear()


_stale_threads: set = set()


def _drain_executors(timeout=10.0):
    """wait for every solver subprocess thread registered so far (early exit kills them asynchronously) and for the
    per-function thread-pool workers (their done-callbacks may still be printing when run_test raised)"""
    use_repo()
    from halmos.processes import ExecutorRegistry

    for ex in list(ExecutorRegistry()._executors):
        for fut in list(ex.futures):
            with contextlib.suppress(Exception):
                fut.result(timeout=timeout)
    # pool workers of a run_test that raised are never shut down: wait only briefly, and only once per thread
    me = threading.current_thread()
    deadline = time.time() + 0.5
    for t in list(threading.enumerate()):
        if t is not me and re.search(r"-_\d+$", t.name) and id(t) not in _stale_threads:
            t.join(timeout=max(0.0, deadline - time.time()))
            if t.is_alive():
                _stale_threads.add(id(t))


class _Capture(logging.Handler):
    def __init__(self):
        super().__init__(level=logging.DEBUG)
        self.records = []
        self._lock2 = threading.Lock()

    def emit(self, record):
        with self._lock2:
            self.records.append((record.levelname, record.getMessage()))


@contextlib.contextmanager
def gc_paused():
    """No automatic cyclic GC while halmos' worker threads exist: a collection triggered on a callback thread would
    release z3 objects while the main thread is inside a z3 call (z3 contexts are not thread-safe; seen as
    `UNEXPECTED CODE WAS REACHED` aborts). Collect on the calling thread afterwards. (halmos has --disable-gc for this.)"""
    was = gc.isenabled()
    gc.disable()
    try:
        yield
    finally:
        gc.collect()
        if was:
            gc.enable()


@contextlib.contextmanager
def capture_halmos(echo=False):
    """capture stdout (print, rich console, rich log handler) and `halmos` logger records"""
    buf = io.StringIO()
    cap = _Capture()
    lg = logging.getLogger("halmos")
    lg.addHandler(cap)
    old = sys.stdout
    sys.stdout = buf
    try:
        yield buf, cap
    finally:
        sys.stdout = old
        lg.removeHandler(cap)
        if echo:
            old.write(buf.getvalue())


def overrides_to_argv(overrides: dict) -> list[str]:
    """halmos config fields given as keywords -> CLI flags (bool: bare flag; countable such as verbose: repeated flag)"""
    use_repo()
    from dataclasses import fields

    from halmos.config import Config

    meta = {f.name: f for f in fields(Config)}
    argv = []
    for k, v in overrides.items():
        if k not in meta:
            raise ValueError(f"unknown halmos config field {k!r}")
        flag = "--" + k.replace("_", "-")
        if v is None or v is False:
            continue
        if meta[k].metadata.get("countable", False):
            argv += [flag] * int(v)
        elif v is True:
            argv.append(flag)
        else:
            argv += [flag, str(v)]
    return argv


def make_config(root, cli_args=(), **overrides):
    """HalmosConfig as `_main` would resolve it from CLI args (`--root` is added); keyword overrides are turned into CLI flags."""
    hm = _halmos()
    argv = ["--root", str(root)] + overrides_to_argv(overrides) + list(cli_args)
    try:
        return hm.load_config(argv), argv
    except SystemExit as e:
        raise ValueError(f"halmos rejected the arguments {argv}: exit {e.code}") from None


def make_contract_context(desc_or_built, args, build_out_map=None):
    """The ContractContext `_main` builds for one contract (funsigs by --function/--match-test, natspec overrides, libs)."""
    hm = _halmos()
    from halmos.build import import_libs
    from halmos.calldata import get_abi
    from halmos.mapper import DeployAddressMapper
    from halmos.solve import ContractContext
    from halmos.utils import hexify

    b = desc_or_built if isinstance(desc_or_built, Built) else None
    if build_out_map is None:
        build_out_map, built = make_build_out_map([desc_or_built.desc if b else desc_or_built])
        b = next(iter(built.values()))
    elif b is None:
        d = desc_or_built
        cj = build_out_map[d.filename][d.name][0]
        b = Built(d, bytes.fromhex(cj["deployedBytecode"]["object"][2:]), bytes.fromhex(cj["bytecode"]["object"][2:]),
                  cj["abi"], cj["methodIdentifiers"], cj, {}, build_out_map[d.filename][d.name][2])
    cj = b.contract_json
    (contract_json, contract_type, natspec) = build_out_map[b.desc.filename][b.desc.name]
    rx = hm.test_regex(args)
    funsigs = [f for f in cj["methodIdentifiers"] if re.search(rx, f)]
    creation_hexcode = cj["bytecode"]["object"]
    deployed_hexcode = cj["deployedBytecode"]["object"]
    libs = import_libs(build_out_map, creation_hexcode, cj["bytecode"]["linkReferences"])
    DeployAddressMapper().add_deployed_contract(hexify(hm.FOUNDRY_TEST), b.desc.name)
    contract_args = hm.with_natspec(args, b.desc.name, natspec)
    return ContractContext(
        args=contract_args, name=b.desc.name, funsigs=funsigs, creation_hexcode=creation_hexcode,
        deployed_hexcode=deployed_hexcode, abi=get_abi(cj), method_identifiers=cj["methodIdentifiers"],
        contract_json=cj, libs=libs, build_out_map=build_out_map,
    )


def register_symbols(build_out_map, args):
    """what parse_build_out does per contract besides loading JSON (Mapper registrations used by trace rendering)"""
    use_repo()
    from halmos.build import parse_symbols

    for _file, cmap in build_out_map.items():
        for name in cmap:
            parse_symbols(args, cmap, name)


# ------------------------------------------------------------------------------------------------ running


@dataclass
class OfflineRun:
    results: list  # list[halmos.__main__.TestResult]
    stdout: str
    log: list  # [(levelname, message)] from the `halmos` logger (incl. halmos.unique)
    num_found: int = 0
    exitcode: int | None = None  # only for run_main_offline: MainResult.exitcode
    test_results: dict | None = None  # only for run_main_offline
    workdir: str | None = None
    argv: list | None = None

    @property
    def warnings(self):
        return [m for lv, m in self.log if lv == "WARNING"]

    @property
    def errors(self):
        return [m for lv, m in self.log if lv in ("ERROR", "CRITICAL")]

    @property
    def by_name(self):
        return {r.name: r for r in self.results}

    def verdict_lines(self):
        return [l for l in self.stdout.splitlines() if re.match(r"^\s*\[(PASS|FAIL|ERROR|TIMEOUT)\]", _strip_ansi(l))]


_ANSI = re.compile(r"\x1b\[[0-9;]*m")


def _strip_ansi(s):
    return _ANSI.sub("", s)


def _solver_overrides(solver_command, solver, overrides):
    if solver_command is None and solver is None:
        solver_command = Z3_COMMAND
    if solver_command is not None:
        overrides["solver_command"] = solver_command
    if solver is not None:
        overrides["solver"] = solver


def run_contract_offline(desc, *, solver_command=None, solver=None, cli_args=(), others=(), workdir=None, inspect=None,
                         echo=False, **config_overrides) -> OfflineRun:
    """Run the real `halmos.__main__.run_contract` in-process on a fabricated contract.

    desc: TestContract; `others`: further TestContracts placed in the same build-output map (e.g. callees).
    solver_command / solver: what halmos should invoke (default `--solver-command z3`; use YICES_COMMAND for yices,
    `stub_solver.Script.command` for the scripted stub).
    config_overrides: halmos config fields (early_exit=True, cache_solver=True, solver_timeout_assertion="500ms", …).
    no_status is forced; SMT queries are dumped to <workdir>/smt/<function>/<path>.smt2; the work directory is a fresh
    temp dir removed afterwards unless `workdir` is given. `inspect(workdir, run)` is called before removal.
    """
    hm = _halmos()
    tmp = workdir or tempfile.mkdtemp(prefix="verif_offline_")
    try:
        reset_halmos_state()
        ov = dict(config_overrides)
        _solver_overrides(solver_command, solver, ov)
        ov.setdefault("no_status", True)
        ov.setdefault("dump_smt_directory", os.path.join(tmp, "smt"))
        with gc_paused(), capture_halmos(echo) as (buf, cap):
            args, argv = make_config(tmp, cli_args, **ov)
            bom, built = make_build_out_map([desc, *others])
            register_symbols(bom, args)
            ctx = make_contract_context(built[desc.name], args, bom)
            try:
                results = hm.run_contract(ctx)
            finally:
                _drain_executors()
        run = OfflineRun(results, _strip_ansi(buf.getvalue()), cap.records, num_found=len(ctx.funsigs), workdir=tmp, argv=argv)
        if inspect:
            inspect(tmp, run)
        return run
    finally:
        if workdir is None:
            shutil.rmtree(tmp, ignore_errors=True)


def overall_exitcode(num_found_and_results) -> int:
    """`_main`'s exit code recomputed from [(num_found, [TestResult…]) per contract] — see run_main_offline for the real one"""
    total_found = sum(n for n, _ in num_found_and_results)
    if total_found == 0:
        return 1
    failed = sum(n - sum(r.exitcode == 0 for r in rs) for n, rs in num_found_and_results)
    return 0 if failed == 0 else 1


def run_main_offline(descs, *, solver_command=None, solver=None, cli_args=(), workdir=None, inspect=None, echo=False,
                     **config_overrides) -> OfflineRun:
    """Run the real `halmos.__main__._main(argv)` (config loading, build-output parsing, selection by regex, every contract,
    exit code) on fabricated `out/` artifacts; `forge build` is satisfied by a no-op `forge` script put first on PATH."""
    hm = _halmos()
    from halmos.ui import ui

    tmp = workdir or tempfile.mkdtemp(prefix="verif_offline_")
    old_path = os.environ.get("PATH", "")
    old_handlers = {}
    try:
        reset_halmos_state()
        write_forge_out(list(descs), tmp)
        bindir = os.path.join(tmp, "bin")
        os.makedirs(bindir, exist_ok=True)
        forge = os.path.join(bindir, "forge")
        with open(forge, "w") as f:
            f.write("#!/bin/sh\nexit 0\n")
        os.chmod(forge, os.stat(forge).st_mode | stat.S_IXUSR | stat.S_IXGRP | stat.S_IXOTH)
        os.environ["PATH"] = bindir + os.pathsep + old_path
        ov = dict(config_overrides)
        _solver_overrides(solver_command, solver, ov)
        ov.setdefault("no_status", True)
        ov.setdefault("dump_smt_directory", os.path.join(tmp, "smt"))
        argv = ["--root", str(tmp)] + overrides_to_argv(ov) + list(cli_args)
        if threading.current_thread() is threading.main_thread():
            for s in (signal.SIGINT, signal.SIGTERM):
                old_handlers[s] = signal.getsignal(s)
        with gc_paused(), capture_halmos(echo) as (buf, cap):
            try:
                try:
                    res = hm._main(argv)
                    code, trs = res.exitcode, res.test_results
                except SystemExit as e:
                    code, trs = (e.code if isinstance(e.code, int) else 1), None
            finally:
                with contextlib.suppress(Exception):
                    ui.stop_status()
                _drain_executors()
        flat = [r for rs in (trs or {}).values() for r in rs]
        run = OfflineRun(flat, _strip_ansi(buf.getvalue()), cap.records, exitcode=code, test_results=trs, workdir=tmp, argv=argv)
        if inspect:
            inspect(tmp, run)
        return run
    finally:
        os.environ["PATH"] = old_path
        for s, h in old_handlers.items():
            with contextlib.suppress(Exception):
                signal.signal(s, h)
        if workdir is None:
            shutil.rmtree(tmp, ignore_errors=True)


# ------------------------------------------------------------------------------------------------ self-test

VERDICT = {0: "PASS", 1: "FAIL", 2: "TIMEOUT", 3: "ERROR(stuck)", 4: "ERROR(revert-all)", 5: "ERROR(exception)"}


def _selftest():
    x = asm.calldata_arg(0)
    c = TestContract("SelfTest", [
        Fn("check_ok(uint256 x)", asm.return_empty()),
        Fn("check_bad(uint256 x)", asm.if_then(asm.eq_const(x, 42), asm.panic(1)) + asm.return_empty()),
    ])
    ok = True
    for label, cmd in (("z3", Z3_COMMAND), ("yices", YICES_COMMAND)):
        run = run_contract_offline(c, solver_command=cmd)
        for r in sorted(run.results, key=lambda r: r.name):
            cex = ""
            if r.models:
                cex = "  counterexample: " + ", ".join(
                    f"{v.variable_name} = {v.value}" for m in r.models for v in m.model.values())
            print(f"[{label}] {VERDICT.get(r.exitcode, r.exitcode):5} {r.name}{cex}")
        by = run.by_name
        good = (by["check_ok(uint256)"].exitcode == 0 and by["check_bad(uint256)"].exitcode == 1
                and [v.value for m in by["check_bad(uint256)"].models for v in m.model.values()] == [42]
                and by["check_bad(uint256)"].models[0].is_valid)
        ok &= good
        if not good:
            print(run.stdout)
            print(run.log)
    m = run_main_offline([c])
    print(f"[_main] exit code {m.exitcode}; " + "; ".join(f"{r.name}={VERDICT.get(r.exitcode)}" for r in sorted(m.results, key=lambda r: r.name)))
    ok &= m.exitcode == 1 and len(m.results) == 2
    m2 = run_main_offline([c], cli_args=["--match-test", "ok"])
    print(f"[_main --match-test ok] exit code {m2.exitcode}")
    ok &= m2.exitcode == 0 and len(m2.results) == 1

    # scripted stub: the same contract, but the "solver" claims unsat for check_bad -> PASS
    from .stub_solver import Script

    tmp = tempfile.mkdtemp(prefix="verif_stub_")
    try:
        with Script(tmp) as s:
            s.rule({"fn": "check_bad"}, reply="unsat")
            s.write()
            r3 = run_contract_offline(c, solver_command=s.command)
            print(f"[stub: unsat] check_bad -> {VERDICT[r3.by_name['check_bad(uint256)'].exitcode]}; stub log: {s.completion_order()}")
            ok &= r3.by_name["check_bad(uint256)"].exitcode == 0
            s.data["rules"] = []
            s.reset_markers()
            s.rule({"fn": "check_bad"}, reply="sat", model={"p_x_uint256": 7}, format="dec")
            s.write()
            r4 = run_contract_offline(c, solver_command=s.command)
            vals = [v.value for m in r4.by_name["check_bad(uint256)"].models for v in m.model.values()]
            print(f"[stub: sat x=7] check_bad -> {VERDICT[r4.by_name['check_bad(uint256)'].exitcode]} model {vals}")
            ok &= r4.by_name["check_bad(uint256)"].exitcode == 1 and vals == [7]
    finally:
        shutil.rmtree(tmp, ignore_errors=True)
    print("artifacts self-test", "ok" if ok else "FAILED")
    return 0 if ok else 1


if __name__ == "__main__":
    sys.exit(_selftest())
