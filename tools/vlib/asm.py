"""A small EVM assembler for hand-assembled halmos test artifacts (forge/solc are not available offline).

Stand-alone: no halmos import, own opcode table, own keccak-256 (used for selectors).

Program = list of *items*:
    "ADD"                 mnemonic (case-insensitive); "KECCAK256" = "SHA3", "PREVRANDAO" = "DIFFICULTY"
    "PUSH4 0x4e487b71"    explicit-width push (value checked to fit); "PUSH 42" / 42 (an int) = auto-sized push
                          (0 -> PUSH0 unless `push0=False`, else the smallest PUSHn)
    ("push", v [, n])     same, programmatic
    ("label", "name") / "name:"        a JUMPDEST carrying a name
    ("ref", "name")   / "PUSH @name"   PUSH2 <address of label> (fixed width 2: one-pass sizing, code < 64 KiB)
    ("mark", "name")  / ".name:"       a name for the current offset WITHOUT emitting JUMPDEST (data offsets)
    b"\\x01\\x02" / ("raw", bytes)     raw bytes
    nested lists are flattened, None is skipped.
Text form: `assemble_text(src)` — whitespace/newline separated, `;` or `//` comments, `name:` labels,
`PUSH @name`, `PUSH 0x2a`, `PUSHn v`, `RAW 0xdeadbeef`.

    code = assemble(["PUSH1 0", "CALLDATALOAD", 224, "SHR", ...])

Snippet helpers return item lists (compose with +): calldata_arg, selector_word, dispatcher, panic, revert_empty,
return_empty, return_word, cheat_call, vm_assume, vm_assert_true, set_fail_flag, svm_create_uint256, stuck, if_then …
"""
from __future__ import annotations

from typing import Iterable

# ---------------------------------------------------------------------------------------------------- opcodes

OPCODES: dict[str, int] = {
    "STOP": 0x00, "ADD": 0x01, "MUL": 0x02, "SUB": 0x03, "DIV": 0x04, "SDIV": 0x05, "MOD": 0x06, "SMOD": 0x07,
    "ADDMOD": 0x08, "MULMOD": 0x09, "EXP": 0x0A, "SIGNEXTEND": 0x0B,
    "LT": 0x10, "GT": 0x11, "SLT": 0x12, "SGT": 0x13, "EQ": 0x14, "ISZERO": 0x15, "AND": 0x16, "OR": 0x17,
    "XOR": 0x18, "NOT": 0x19, "BYTE": 0x1A, "SHL": 0x1B, "SHR": 0x1C, "SAR": 0x1D,
    "SHA3": 0x20, "KECCAK256": 0x20,
    "ADDRESS": 0x30, "BALANCE": 0x31, "ORIGIN": 0x32, "CALLER": 0x33, "CALLVALUE": 0x34, "CALLDATALOAD": 0x35,
    "CALLDATASIZE": 0x36, "CALLDATACOPY": 0x37, "CODESIZE": 0x38, "CODECOPY": 0x39, "GASPRICE": 0x3A,
    "EXTCODESIZE": 0x3B, "EXTCODECOPY": 0x3C, "RETURNDATASIZE": 0x3D, "RETURNDATACOPY": 0x3E, "EXTCODEHASH": 0x3F,
    "BLOCKHASH": 0x40, "COINBASE": 0x41, "TIMESTAMP": 0x42, "NUMBER": 0x43, "DIFFICULTY": 0x44, "PREVRANDAO": 0x44,
    "GASLIMIT": 0x45, "CHAINID": 0x46, "SELFBALANCE": 0x47, "BASEFEE": 0x48,
    "POP": 0x50, "MLOAD": 0x51, "MSTORE": 0x52, "MSTORE8": 0x53, "SLOAD": 0x54, "SSTORE": 0x55, "JUMP": 0x56,
    "JUMPI": 0x57, "PC": 0x58, "MSIZE": 0x59, "GAS": 0x5A, "JUMPDEST": 0x5B, "TLOAD": 0x5C, "TSTORE": 0x5D,
    "MCOPY": 0x5E, "PUSH0": 0x5F,
    "LOG0": 0xA0, "LOG1": 0xA1, "LOG2": 0xA2, "LOG3": 0xA3, "LOG4": 0xA4,
    "CREATE": 0xF0, "CALL": 0xF1, "CALLCODE": 0xF2, "RETURN": 0xF3, "DELEGATECALL": 0xF4, "CREATE2": 0xF5,
    "STATICCALL": 0xFA, "REVERT": 0xFD, "INVALID": 0xFE, "SELFDESTRUCT": 0xFF,
}
for _i in range(1, 33):
    OPCODES[f"PUSH{_i}"] = 0x5F + _i
for _i in range(1, 17):
    OPCODES[f"DUP{_i}"] = 0x7F + _i
    OPCODES[f"SWAP{_i}"] = 0x8F + _i

HEVM_ADDRESS = 0x7109709ECFA91A80626FF3989D68F67F5B1DD12D  # vm / hevm cheat code address
SVM_ADDRESS = 0xF3993A62377BCD56AE39D773740A5390411E8BC9  # svm (halmos) cheat code address
PANIC_SELECTOR = 0x4E487B71  # Panic(uint256)
ERROR_SELECTOR = 0x08C379A0  # Error(string)

# ---------------------------------------------------------------------------------------------------- keccak

_RC = [
    0x0000000000000001, 0x0000000000008082, 0x800000000000808A, 0x8000000080008000, 0x000000000000808B,
    0x0000000080000001, 0x8000000080008081, 0x8000000000008009, 0x000000000000008A, 0x0000000000000088,
    0x0000000080008009, 0x000000008000000A, 0x000000008000808B, 0x800000000000008B, 0x8000000000008089,
    0x8000000000008003, 0x8000000000008002, 0x8000000000000080, 0x000000000000800A, 0x800000008000000A,
    0x8000000080008081, 0x8000000000008080, 0x0000000080000001, 0x8000000080008008,
]
_ROT = [[0, 36, 3, 41, 18], [1, 44, 10, 45, 2], [62, 6, 43, 15, 61], [28, 55, 25, 21, 56], [27, 20, 39, 8, 14]]
_M64 = (1 << 64) - 1


def _rol(x, n):
    n %= 64
    return ((x << n) | (x >> (64 - n))) & _M64 if n else x


def _keccak_f(a):
    for rc in _RC:
        c = [a[x][0] ^ a[x][1] ^ a[x][2] ^ a[x][3] ^ a[x][4] for x in range(5)]
        d = [c[(x - 1) % 5] ^ _rol(c[(x + 1) % 5], 1) for x in range(5)]
        a = [[a[x][y] ^ d[x] for y in range(5)] for x in range(5)]
        b = [[0] * 5 for _ in range(5)]
        for x in range(5):
            for y in range(5):
                b[y][(2 * x + 3 * y) % 5] = _rol(a[x][y], _ROT[x][y])
        a = [[b[x][y] ^ ((~b[(x + 1) % 5][y]) & b[(x + 2) % 5][y]) for y in range(5)] for x in range(5)]
        a[0][0] ^= rc
    return a


def keccak256(data: bytes) -> bytes:
    rate = 136
    p = bytearray(data)
    p.append(0x01)
    while len(p) % rate:
        p.append(0)
    p[-1] |= 0x80
    a = [[0] * 5 for _ in range(5)]
    for off in range(0, len(p), rate):
        blk = p[off:off + rate]
        for i in range(rate // 8):
            a[i % 5][i // 5] ^= int.from_bytes(blk[8 * i:8 * i + 8], "little")
        a = _keccak_f(a)
    out = b"".join(a[i % 5][i // 5].to_bytes(8, "little") for i in range(4))
    return out


def selector(sig: str) -> int:
    """4-byte selector of a canonical signature such as 'check_ok(uint256)'."""
    return int.from_bytes(keccak256(sig.encode())[:4], "big")


def selector_hex(sig: str) -> str:
    return f"{selector(sig):08x}"


# ---------------------------------------------------------------------------------------------------- assembler


class AsmError(ValueError):
    pass


def _parse_int(s: str) -> int:
    s = s.strip().replace("_", "")
    return int(s, 16) if s.lower().startswith("0x") else int(s)


def _flatten(items) -> Iterable:
    for it in items:
        if it is None:
            continue
        if isinstance(it, list):
            yield from _flatten(it)
        else:
            yield it


def _push_bytes(v: int, n: int | None, push0: bool) -> bytes:
    if v < 0:
        v &= (1 << 256) - 1
    if v >= 1 << 256:
        raise AsmError(f"push value does not fit 256 bits: {v:#x}")
    if n is None:
        if v == 0 and push0:
            return bytes([0x5F])
        n = max(1, (v.bit_length() + 7) // 8)
    if n == 0:
        if v != 0:
            raise AsmError("PUSH0 with non-zero value")
        return bytes([0x5F])
    if not (1 <= n <= 32) or v >= 1 << (8 * n):
        raise AsmError(f"value {v:#x} does not fit PUSH{n}")
    return bytes([0x5F + n]) + v.to_bytes(n, "big")


def _norm(it, push0: bool):
    """normalise one item to ('bytes', b) | ('label', name) | ('mark', name) | ('ref', name)"""
    if isinstance(it, (bytes, bytearray)):
        return ("bytes", bytes(it))
    if isinstance(it, bool):
        raise AsmError("bool item")
    if isinstance(it, int):
        return ("bytes", _push_bytes(it, None, push0))
    if isinstance(it, tuple):
        k = it[0]
        if k == "push":
            return ("bytes", _push_bytes(it[1], it[2] if len(it) > 2 else None, push0))
        if k in ("label", "ref", "mark"):
            return (k, it[1])
        if k == "raw":
            return ("bytes", bytes(it[1]))
        raise AsmError(f"unknown item {it!r}")
    if isinstance(it, str):
        s = it.strip()
        if not s:
            return ("bytes", b"")
        if s.endswith(":") and " " not in s:
            return ("mark", s[1:-1]) if s.startswith(".") else ("label", s[:-1])
        parts = s.split()
        m = parts[0].upper()
        if m == "RAW":
            h = parts[1][2:] if parts[1].lower().startswith("0x") else parts[1]
            return ("bytes", bytes.fromhex(h))
        if m.startswith("PUSH") and len(parts) == 2:
            if parts[1].startswith("@"):
                if m not in ("PUSH", "PUSH2"):
                    raise AsmError("label references are PUSH2")
                return ("ref", parts[1][1:])
            v = _parse_int(parts[1])
            if m == "PUSH":
                return ("bytes", _push_bytes(v, None, push0))
            return ("bytes", _push_bytes(v, int(m[4:]), push0))
        if len(parts) != 1:
            raise AsmError(f"cannot parse {it!r}")
        if m not in OPCODES:
            raise AsmError(f"unknown mnemonic {it!r}")
        if m.startswith("PUSH") and m != "PUSH0":
            raise AsmError(f"{m} needs an operand")
        return ("bytes", bytes([OPCODES[m]]))
    raise AsmError(f"unknown item {it!r}")


def assemble(items, push0: bool = True, base: int = 0, labels_out: dict | None = None) -> bytes:
    """Assemble an item list to bytes. `base` is added to every label address (code placed at an offset)."""
    norm = [_norm(it, push0) for it in _flatten(items)]
    labels: dict[str, int] = {}
    pc = 0
    for k, v in norm:
        if k == "bytes":
            pc += len(v)
        elif k == "label":
            if v in labels:
                raise AsmError(f"duplicate label {v}")
            labels[v] = base + pc
            pc += 1
        elif k == "mark":
            if v in labels:
                raise AsmError(f"duplicate label {v}")
            labels[v] = base + pc
        else:
            pc += 3
    out = bytearray()
    for k, v in norm:
        if k == "bytes":
            out += v
        elif k == "label":
            out.append(0x5B)
        elif k == "mark":
            pass
        else:
            if v not in labels:
                raise AsmError(f"undefined label {v}")
            if labels[v] >= 1 << 16:
                raise AsmError("label beyond 64 KiB")
            out += bytes([0x61]) + labels[v].to_bytes(2, "big")
    if labels_out is not None:
        labels_out.update(labels)
    return bytes(out)


def assemble_text(src: str, **kw) -> bytes:
    items = []
    for line in src.splitlines():
        for c in (";", "//"):
            if c in line:
                line = line[: line.index(c)]
        toks = line.split()
        i = 0
        while i < len(toks):
            t = toks[i]
            u = t.upper()
            if t.endswith(":"):
                items.append(t)
                i += 1
            elif (u == "RAW" or (u.startswith("PUSH") and u != "PUSH0")) and i + 1 < len(toks):
                items.append(f"{t} {toks[i + 1]}")
                i += 2
            else:
                items.append(t)
                i += 1
    return assemble(items, **kw)


def disassemble(code: bytes) -> list[tuple[int, str]]:
    inv = {}
    for k, v in OPCODES.items():
        inv.setdefault(v, k)
    out, pc = [], 0
    while pc < len(code):
        op = code[pc]
        name = inv.get(op, f"UNKNOWN_{op:02x}")
        if 0x60 <= op <= 0x7F:
            n = op - 0x5F
            out.append((pc, f"{name} 0x{code[pc + 1:pc + 1 + n].hex()}"))
            pc += 1 + n
        else:
            out.append((pc, name))
            pc += 1
    return out


# ---------------------------------------------------------------------------------------------------- snippets

_uniq = [0]


def fresh(prefix="L") -> str:
    _uniq[0] += 1
    return f"_{prefix}{_uniq[0]}"


def calldata_arg(i: int) -> list:
    """push the i-th static ABI argument word (offset 4 + 32*i)"""
    return [("push", 4 + 32 * i), "CALLDATALOAD"]


def selector_word(sel: int) -> list:
    """push the 32-byte word whose first four bytes are the selector"""
    return [("push", sel, 4), ("push", 224), "SHL"]


def dispatcher(table: dict[int, str], fallback: list | None = None, check_calldatasize: bool = True) -> list:
    """Solidity-style selector dispatcher.

    table: selector(int) -> label name of the function body. No match (or calldata shorter than 4 bytes) runs
    `fallback` (default: REVERT(0,0)). Leaves nothing on the stack at the function body.
    """
    fb = fresh("fallback")
    items: list = []
    if check_calldatasize:
        items += [("push", 4), "CALLDATASIZE", "LT", ("ref", fb), "JUMPI"]
    items += [("push", 0), "CALLDATALOAD", ("push", 224), "SHR"]
    for sel, lab in table.items():
        items += ["DUP1", ("push", sel, 4), "EQ", ("ref", lab), "JUMPI"]
    items += [("label", fb)] + (fallback if fallback is not None else revert_empty())
    return items


def function_body(label: str, body: list) -> list:
    """JUMPDEST label; POP the selector left by the dispatcher; body"""
    return [("label", label), "POP"] + body


def revert_empty() -> list:
    return [("push", 0), ("push", 0), "REVERT"]


def return_empty() -> list:
    return ["STOP"]


def return_word(value_items: list) -> list:
    return value_items + [("push", 0), "MSTORE", ("push", 32), ("push", 0), "RETURN"]


def mstore_const(offset: int, value: int, width: int | None = None) -> list:
    return [("push", value, width) if width else ("push", value), ("push", offset), "MSTORE"]


def panic(code: int, mem: int = 0) -> list:
    """revert with Panic(uint256 code) — abi.encodeWithSelector(0x4e487b71, code), 36 bytes"""
    return selector_word(PANIC_SELECTOR) + [("push", mem), "MSTORE", ("push", code), ("push", mem + 4), "MSTORE",
                                             ("push", 36), ("push", mem), "REVERT"]


def revert_error_string(msg: bytes, mem: int = 0) -> list:
    """revert with Error(string) (msg at most 32 bytes)"""
    assert len(msg) <= 32
    return selector_word(ERROR_SELECTOR) + [
        ("push", mem), "MSTORE",
        ("push", 0x20), ("push", mem + 4), "MSTORE",
        ("push", len(msg)), ("push", mem + 36), "MSTORE",
        ("push", int.from_bytes(msg.ljust(32, b"\0"), "big"), 32), ("push", mem + 68), "MSTORE",
        ("push", 100), ("push", mem), "REVERT",
    ]


def cheat_call(address: int, sel: int, args: list[list], mem: int = 0x80, ret_size: int = 0, pop: bool = True,
               static: bool = False) -> list:
    """CALL address with calldata = selector ++ 32-byte words; each element of `args` is an item list pushing one word.

    Return data (ret_size bytes) is written to memory at `mem` + 4 + 32*len(args) rounded... (we use offset `mem`+0x200).
    The success flag is popped unless pop=False. Returns items.
    """
    n = 4 + 32 * len(args)
    items = selector_word(sel) + [("push", mem), "MSTORE"]
    for i, a in enumerate(args):
        items += list(a) + [("push", mem + 4 + 32 * i), "MSTORE"]
    ret_off = mem + 0x200
    items += [("push", ret_size), ("push", ret_off), ("push", n), ("push", mem)]
    if not static:
        items += [("push", 0)]
    items += [("push", address, 20), "GAS", "STATICCALL" if static else "CALL"]
    if pop:
        items += ["POP"]
    return items


CHEAT_RET_OFFSET = 0x80 + 0x200


def vm_assume(cond: list, mem: int = 0x80) -> list:
    """vm.assume(bool) — selector 0x4c63e562"""
    return cheat_call(HEVM_ADDRESS, 0x4C63E562, [cond], mem)


def vm_assert_true(cond: list, mem: int = 0x80) -> list:
    """vm.assertTrue(bool) — selector 0x0c9fd581"""
    return cheat_call(HEVM_ADDRESS, 0x0C9FD581, [cond], mem)


def vm_assert_false(cond: list, mem: int = 0x80) -> list:
    """vm.assertFalse(bool) — selector 0xa5982885"""
    return cheat_call(HEVM_ADDRESS, 0xA5982885, [cond], mem)


def vm_assert_eq(a: list, b: list, mem: int = 0x80) -> list:
    """vm.assertEq(uint256,uint256) — selector 0x98296c54"""
    return cheat_call(HEVM_ADDRESS, 0x98296C54, [a, b], mem)


def set_fail_flag(mem: int = 0x80) -> list:
    """legacy DSTest.fail(): vm.store(HEVM_ADDRESS, bytes32("failed"), bytes32(uint256(1))) — selector 0x70ca10bb"""
    return cheat_call(
        HEVM_ADDRESS, 0x70CA10BB,
        [[("push", HEVM_ADDRESS, 20)], [("push", int.from_bytes(b"failed".ljust(32, b"\0"), "big"), 32)], [("push", 1)]],
        mem,
    )


def vm_store(addr: list, slot: list, value: list, mem: int = 0x80) -> list:
    return cheat_call(HEVM_ADDRESS, 0x70CA10BB, [addr, slot, value], mem)


def svm_create_uint256(name: bytes = b"x", mem: int = 0x80) -> list:
    """svm.createUint256(string) — selector 0xbc7beefc; leaves the fresh symbolic word on the stack"""
    assert len(name) <= 32
    return cheat_call(
        SVM_ADDRESS, 0xBC7BEEFC,
        [[("push", 0x20)], [("push", len(name))], [("push", int.from_bytes(name.ljust(32, b"\0"), "big"), 32)]],
        mem, ret_size=32,
    ) + [("push", mem + 0x200), "MLOAD"]


def stuck() -> list:
    """make the path *stuck* for halmos (internal HalmosException, no output): an opcode byte halmos does not support"""
    return [("raw", bytes([0x0C]))]


def stuck_symbolic(value: list) -> list:
    """stuck by NotConcreteError: SIGNEXTEND with a symbolic size operand"""
    return [("push", 1)] + value + ["SIGNEXTEND", "POP"]


def if_then(cond: list, then: list, otherwise: list | None = None) -> list:
    """if (cond != 0) { then } else { otherwise }; both branches fall through to the join unless they terminate"""
    lt, lj = fresh("then"), fresh("join")
    return cond + [("ref", lt), "JUMPI"] + (otherwise or []) + [("ref", lj), "JUMP", ("label", lt)] + then + [("label", lj)]


def eq_const(value: list, c: int) -> list:
    return value + [("push", c), "EQ"]


def creation_code(runtime: bytes, constructor: list | None = None) -> bytes:
    """Creation (init) code: optional constructor items, then CODECOPY the runtime to memory 0 and RETURN it."""
    pre = list(constructor or [])

    def build(off):
        return assemble(pre + [("push", len(runtime), 2), "DUP1", ("push", off, 2), ("push", 0), "CODECOPY", ("push", 0), "RETURN"])

    head = build(0)
    head = build(len(head))
    return head + runtime


def hexcode(b: bytes) -> str:
    return "0x" + b.hex()


if __name__ == "__main__":
    assert keccak256(b"").hex() == "c5d2460186f7233c927e7db2dcc703c0e500b653ca82273b7bfad8045d85a470"
    assert selector("Panic(uint256)") == PANIC_SELECTOR and selector("Error(string)") == ERROR_SELECTOR
    assert selector("assume(bool)") == 0x4C63E562 and selector("assertTrue(bool)") == 0x0C9FD581
    assert selector("store(address,bytes32,bytes32)") == 0x70CA10BB and selector("createUint256(string)") == 0xBC7BEEFC
    assert assemble([1, "ADD", ("label", "a"), ("ref", "a"), "JUMP"]).hex() == "6001015b61000356"
    assert assemble_text("PUSH1 0x00 CALLDATALOAD ; c\nfoo: PUSH @foo JUMP").hex() == "6000355b61000356"
    rt = assemble(dispatcher({0x11223344: "f"}) + function_body("f", return_empty()))
    cc = creation_code(rt)
    assert cc.endswith(rt)
    print("asm self-test ok;", len(rt), "byte runtime;", " ".join(s for _, s in disassemble(cc[: len(cc) - len(rt)])))
