"""C09 — correspondence of the Lean model of the call machinery (`Model.Calls`) with the real SEVM.

Random call trees (depth <= 4) are generated as data. Each tree is
  * compiled to EVM contracts (one contract per callee node, init code embedded for CREATE nodes) with `asm`,
    and run on the REAL SEVM (`evmdiff.symbolic_run`: symbolic caller / origin / value / balances), whose reported paths
    are evaluated under concrete inputs (`PathEval`);
  * sent as data to `Driver/Calls.lean`, which builds the `Model.Calls.Frame` interaction tree and runs `runFrame`;
  * run as bytecode on the Lean reference EVM (`Driver/Evm.lean`).
Compared: outcome kind and output data of the root frame (the data is an accumulator of everything every frame
observed: its ADDRESS / CALLER / CALLVALUE / ORIGIN, and per call the flag, RETURNDATASIZE, the 64-byte return area
after the truncating copy, the first returndata word), final storage / transient storage of every (address, slot) in
play, balances of every address in play, code of created accounts, number of addresses handed out.

model != implementation and reference == implementation  -> the model is stale (RuntimeError: broken obligation)
model != implementation and reference != implementation  -> violation of C09 by the implementation
model == implementation != reference                     -> the recorded deviation (value-bearing CALL in a static
                                                            frame) is counted; anything else is a violation
"""
from __future__ import annotations

import ast
import json

from . import asm
from . import evmdiff as D
from .evmdiff import MAIN, Scenario
from .runner import REPO, VERIF

ACC = 0x100          # accumulator of observed words
OUT = ACC - 32       # the frame's output starts with a digest of the accumulator
DIGEST_P = 0x9E3779B97F4A7C15F39CC0605CEDC8341082276BF3A27251F86C6A11D0C18E95   # odd multiplier of the digest
RET = 0x40           # 64-byte return area
SCR = 0x1000         # scratch word for the returndata
INIT = 0x2000        # where init code is staged for CREATE
MARK = int.from_bytes(b"\xee" * 32, "big")
OPS = {"c": "CALL", "s": "STATICCALL", "d": "DELEGATECALL", "x": "CALLCODE"}
MAXD = 4
CFGS = [{}, {"storage_layout": "generic"}]


# --------------------------------------------------------------------------------------------------
# literals of the code under test
# --------------------------------------------------------------------------------------------------

def harvest_literals():
    src = (REPO / "src" / "halmos" / "sevm.py").read_text()
    tree = ast.parse(src)
    want = {"call", "create", "transfer_value", "handle_insufficient_fund_case", "copy_returndata_to_memory", "returndata",
            "resolve_prank", "new_address", "sstore"}
    lits = set()
    for node in ast.walk(tree):
        if isinstance(node, (ast.FunctionDef, ast.AsyncFunctionDef)) and node.name in want:
            for n in ast.walk(node):
                if isinstance(n, ast.Constant) and isinstance(n.value, int) and not isinstance(n.value, bool):
                    lits.add(n.value)
    out = set()
    for v in lits:
        for d in (-1, 0, 1):
            if 0 <= v + d < (1 << 256):
                out.add(v + d)
    return sorted(out)


# --------------------------------------------------------------------------------------------------
# generation
# --------------------------------------------------------------------------------------------------

class TreeGen:
    def __init__(self, rng, lits):
        self.rng = rng
        self.next_addr = 0x2000
        self.next_void = 0x5000
        self.value_ops = 0
        self.nodes = 0
        self.finished = []   # (address, frame) of completed callee nodes: may be called again (no recursion possible)
        small = [v for v in lits if v <= 64]
        self.sizes = [0, 0, 1, 2, 31, 32, 33, 63, 64] + small
        self.values = [0, 0, 0, 1, 1, 2, 3, 5] + [v for v in lits if v <= 12]
        self.slots = [0, 1, 2, 3]
        self.words = [0, 1, 2, 7, 0xFF, (1 << 256) - 1] + [v for v in lits if v < (1 << 256)][:8]

    def value(self):
        if self.value_ops >= 4:
            return 0
        v = self.rng.choice(self.values)
        if v:
            self.value_ops += 1
        return v

    def frame(self, depth, is_init=False):
        rng = self.rng
        self.nodes += 1
        acts = []
        n = rng.randrange(2, 6) if depth == 1 else rng.randrange(0, 4)
        known = [MAIN] + list(range(0x2000, self.next_addr))
        for _ in range(n):
            k = rng.random()
            if k < 0.17:
                acts.append(["S", rng.choice(self.slots), rng.choice(self.words)])
            elif k < 0.27:
                acts.append(["T", rng.choice(self.slots), rng.choice(self.words)])
            elif k < 0.31:
                acts.append(["L"])
            elif k < 0.40:
                acts.append(["B", rng.choice(self.slots), rng.choice(known + [0x5000, 0xCAFE, D.ALLOC_BASE + 1])])
            elif k < 0.88 or self.nodes > 12:
                sch = rng.choice("ccccsssddxx")
                val = self.value() if sch in "cx" else rng.choice([0, 0, 3])   # the popped word is ignored for s/d: none is pushed
                rs = rng.choice(self.sizes)
                if is_init and rng.random() < 0.3:
                    # CALL to the account under construction (it exists, with empty code): a self-transfer
                    acts.append(["Z", self.value(), rs])
                    continue
                again = [(a, f) for a, f in self.finished if frame_depth(f) + depth <= MAXD]
                if again and rng.random() < 0.2:
                    to, callee = rng.choice(again)
                elif depth < MAXD and self.nodes <= 12 and rng.random() < 0.85:
                    to = self.next_addr
                    self.next_addr += 1
                    callee = self.frame(depth + 1)
                    self.finished.append((to, callee))
                else:
                    to, callee = self.next_void, None
                    self.next_void += 1
                acts.append(["C", sch, to, val if sch in "cx" else 0, rs, callee])
            else:
                val = self.value()
                init = self.frame(min(depth + 1, MAXD), is_init=True) if depth < MAXD else {"acts": [], "end": ["R", 2]}
                acts.append(["N", val, init])
        nacc = 1 + 4 + sum(5 if a[0] in "CZ" else 3 if a[0] == "N" else 0 for a in acts)   # digest + context + observations
        k = rng.random()
        if k < 0.6:
            end = ["R", rng.choice([0, 1, 31, 32, 32, 33, 64, 64, 96, 128, 32 * nacc, 32 * nacc + 1, 32 * nacc - 1])]
        elif k < 0.87:
            end = ["V", rng.choice([0, 1, 31, 32, 32, 33, 64, 128, 32 * nacc])]
        else:
            end = ["I"]
        if depth == 1 and end[0] != "I" and rng.random() < 0.8:
            end[1] = 32 * nacc   # the root mostly reports everything it saw
        if is_init and end[0] == "R":
            end[1] = min(end[1], 40)
        return {"acts": acts, "end": end}


def frame_depth(frame):
    d = 0
    for a in frame["acts"]:
        if a[0] == "C" and a[5] is not None:
            d = max(d, frame_depth(a[5]))
        elif a[0] == "N":
            d = max(d, frame_depth(a[2]))
    return d + 1


def gen_tree(rng, lits):
    g = TreeGen(rng, lits)
    return g.frame(1)


DIRECTED = {
    # the recorded deviation: a value-bearing CALL inside a static frame goes through (model mirrors the code)
    "static-value-call": ({"acts": [["C", "s", 0x2000, 0, 32, {"acts": [["C", "c", 0x5000, 1, 0, None]], "end": ["R", 288]}]],
                           "end": ["R", 288]}, False),
    # three levels, reverting middle frame with a successful child that wrote and received value
    "revert-middle": ({"acts": [["S", 1, 5], ["C", "c", 0x2000, 3, 1, {"acts": [["S", 1, 7], ["T", 2, 9], ["C", "c", 0x2001, 2, 32,
                       {"acts": [["S", 1, 9], ["T", 1, 1]], "end": ["R", 33]}]], "end": ["V", 96]}], ["B", 2, 0x2000], ["B", 3, 0x2001]],
                       "end": ["R", 288]}, False),
    # CREATE with endowment whose init code calls back and then fails / succeeds; returndata after CREATE
    "create-fail-then-ok": ({"acts": [["N", 2, {"acts": [["S", 0, 1], ["C", "c", 0x5000, 1, 0, None]], "end": ["V", 33]}],
                                      ["N", 1, {"acts": [["S", 0, 2]], "end": ["R", 5]}], ["B", 1, D.ALLOC_BASE + 2]], "end": ["R", 320]}, False),
    # writes, logs and creates under STATICCALL and below it; DELEGATECALL / CALLCODE keep the caller's storage
    "static-writes": ({"acts": [["C", "s", 0x2000, 0, 64, {"acts": [["C", "d", 0x2001, 0, 0, {"acts": [["S", 1, 1]], "end": ["R", 0]}],
                        ["C", "c", 0x2002, 0, 0, {"acts": [["L"]], "end": ["R", 0]}], ["C", "x", 0x2003, 0, 0, {"acts": [["N", 0, {"acts": [], "end": ["R", 1]}]], "end": ["R", 0]}],
                        ["C", "c", 0x2004, 0, 0, {"acts": [["T", 1, 1]], "end": ["R", 0]}]], "end": ["R", 32 * 24]}],
                       ["C", "d", 0x2005, 0, 7, {"acts": [["S", 2, 7], ["T", 2, 8]], "end": ["R", 160]}],
                       ["C", "x", 0x2006, 1, 33, {"acts": [["S", 3, 7], ["B", 0, MAIN]], "end": ["R", 160]}]], "end": ["R", 32 * 19]}, False),
    # a static root frame
    "static-root": ({"acts": [["C", "c", 0x2000, 0, 32, {"acts": [["S", 1, 1]], "end": ["R", 32]}], ["C", "c", 0x5000, 2, 0, None], ["S", 0, 1]],
                     "end": ["R", 448]}, True),
    # self-transfer: init code CALLs its own (existing, empty-code) account with value
    "self-transfer-in-init": ({"acts": [["N", 3, {"acts": [["Z", 2, 32], ["B", 1, D.ALLOC_BASE + 1], ["Z", 4, 0]], "end": ["R", 4]}],
                                        ["B", 2, D.ALLOC_BASE + 1]], "end": ["R", 320]}, False),
    # the same callee reached by CALL, STATICCALL, DELEGATECALL and CALLCODE: one code, four contexts
    "one-callee-four-schemes": ({"acts": [["C", k, 0x2000, 1 if k in "cx" else 0, 64, {"acts": [["S", 1, 6], ["T", 1, 7], ["B", 2, 0x2000]], "end": ["R", 192]}]
                                          for k in "csdxc"], "end": ["R", 32 * 31]}, False),
    # insufficient funds at each level, zero-size and oversize return areas
    "insufficient": ({"acts": [["C", "c", 0x2000, 5, 64, {"acts": [["C", "x", 0x2001, 7, 0, {"acts": [["S", 1, 1]], "end": ["R", 32]}],
                       ["N", 9, {"acts": [], "end": ["R", 1]}]], "end": ["R", 416]}], ["C", "c", 0x5000, 3, 0, None]], "end": ["R", 448]}, False),
}


# --------------------------------------------------------------------------------------------------
# tree -> request tokens for Driver/Calls.lean
# --------------------------------------------------------------------------------------------------

def hx(n):
    return f"{n:x}"


def tokens(frame):
    out = ["F"]
    for a in frame["acts"]:
        if a[0] in ("S", "T", "B"):
            out += [a[0], hx(a[1]), hx(a[2])]
        elif a[0] == "L":
            out.append("L")
        elif a[0] == "C":
            out += ["C", a[1], hx(a[2]), hx(a[3]), hx(a[4])]
            out += ["-"] if a[5] is None else tokens(a[5])
        elif a[0] == "N":
            out += ["N", hx(a[1])] + tokens(a[2])
        elif a[0] == "Z":
            out += ["Z", hx(a[1]), hx(a[2])]
    e = frame["end"]
    out += ["I"] if e[0] == "I" else [e[0], hx(e[1])]
    return out


def walk(frame, f):
    f(frame)
    for a in frame["acts"]:
        if a[0] == "C" and a[5] is not None:
            walk(a[5], f)
        elif a[0] == "N":
            walk(a[2], f)


def universe(frame):
    addrs, slots, code_addrs = {MAIN}, set(), {MAIN}

    def visit(fr):
        for a in fr["acts"]:
            if a[0] in ("S", "T"):
                slots.add(a[1])
            elif a[0] == "B":
                slots.add(a[1])
                addrs.add(a[2])
            elif a[0] == "C":
                addrs.add(a[2])
                if a[5] is not None:
                    code_addrs.add(a[2])

    walk(frame, visit)
    return sorted(addrs), sorted(slots), sorted(code_addrs)


def features(frame):
    """histogram keys describing the tree"""
    feats = []

    def rec(fr, depth, static):
        feats.append(f"end:{fr['end'][0]}")
        for a in fr["acts"]:
            if a[0] == "C":
                feats.append("call:" + OPS[a[1]] + (":nocode" if a[5] is None else "") + (":value" if a[3] else ""))
                if a[1] == "c" and a[3] and static:
                    feats.append("value-call-in-static")
                if a[5] is not None:
                    rec(a[5], depth + 1, static or a[1] == "s")
            elif a[0] == "N":
                feats.append("create" + (":value" if a[1] else "") + (":in-static" if static else ""))
                rec(a[2], depth + 1, False)
            elif a[0] == "Z":
                feats.append("self-call-in-init" + (":value" if a[1] else ""))
            else:
                feats.append("act:" + a[0] + (":in-static" if static and a[0] != "B" else ""))
        feats.append(f"depth:{depth}")

    return feats, rec


def tree_features(frame, root_static):
    feats, rec = features(frame)
    rec(frame, 1, root_static)
    return feats


# --------------------------------------------------------------------------------------------------
# tree -> EVM contracts
# --------------------------------------------------------------------------------------------------

def compile_frame(frame, contracts):
    items = []
    n = 0

    def acc_store():   # value on the stack -> acc[n]
        nonlocal n
        items.extend([("push", ACC + 32 * n), "MSTORE"])
        n += 1

    for op in ("ADDRESS", "CALLER", "CALLVALUE", "ORIGIN"):
        items.append(op)
        acc_store()
    data = []
    for a in frame["acts"]:
        if a[0] == "S":
            items += [("push", a[2]), ("push", a[1]), "SSTORE"]
        elif a[0] == "T":
            items += [("push", a[2]), ("push", a[1]), "TSTORE"]
        elif a[0] == "L":
            items += [("push", 0), ("push", 0), "LOG0"]
        elif a[0] == "B":
            items += [("push", a[2]), "BALANCE", ("push", a[1]), "SSTORE"]
        elif a[0] in "CZ":
            if a[0] == "Z":
                sch, to, val, rs, callee = "c", None, a[1], a[2], None
            else:
                _, sch, to, val, rs, callee = a
            if callee is not None:
                contracts[to] = compile_frame(callee, contracts)
            items += [("push", MARK), ("push", RET), "MSTORE", ("push", MARK), ("push", RET + 32), "MSTORE"]
            items += [("push", rs), ("push", RET), ("push", 0), ("push", 0)]
            if sch in "cx":
                items.append(("push", val))
            items += ["ADDRESS" if to is None else ("push", to), ("push", 0xFFFF), OPS[sch]]
            acc_store()
            items.append("RETURNDATASIZE")
            acc_store()
            items += [("push", RET), "MLOAD"]
            acc_store()
            items += [("push", RET + 32), "MLOAD"]
            acc_store()
            items += [("push", MARK), ("push", SCR), "MSTORE", "RETURNDATASIZE", ("push", 0), ("push", SCR), "RETURNDATACOPY",
                      ("push", SCR), "MLOAD"]
            acc_store()
        elif a[0] == "N":
            init = compile_frame(a[2], contracts)
            name = asm.fresh("init")
            data.append((name, init))
            items += [("push", len(init)), ("ref", name), ("push", INIT), "CODECOPY"]
            items += [("push", len(init)), ("push", INIT), ("push", a[1]), "CREATE"]
            acc_store()
            items.append("RETURNDATASIZE")
            acc_store()
            items += [("push", MARK), ("push", SCR), "MSTORE", "RETURNDATASIZE", ("push", 0), ("push", SCR), "RETURNDATACOPY",
                      ("push", SCR), "MLOAD"]
            acc_store()
    e = frame["end"]
    if e[0] == "I":
        items.append("INVALID")
    else:
        # digest of everything this frame observed (so that observations at any depth reach the root's output)
        items.append(("push", 0))
        for i in range(n):
            items += [("push", DIGEST_P), "MUL", ("push", ACC + 32 * i), "MLOAD", "ADD"]
        items += [("push", OUT), "MSTORE"]
        items += [("push", e[1]), ("push", OUT), "RETURN" if e[0] == "R" else "REVERT"]
    for name, init in data:
        items += [("mark", name), ("raw", init)]
    return asm.assemble(items)


def compile_tree(frame, static=False):
    contracts = {}
    contracts[MAIN] = compile_frame(frame, contracts)
    return Scenario(contracts, nargs=0, selector=b"", static=static)


# --------------------------------------------------------------------------------------------------
# inputs
# --------------------------------------------------------------------------------------------------

def gen_inputs(rng, addrs, lits):
    caller = rng.choice([0xCAFE, 0xCAFE, MAIN, rng.choice(addrs), rng.randrange(1 << 160)])
    origin = rng.choice([caller, 0xBEEF, rng.randrange(1 << 160)])
    pool = [0, 0, 1, 2, 3, 4, 5, 6, 8, 10, 100, 10 ** 18] + [v for v in lits if v <= 16]
    bal = {}
    for a in set(addrs + [caller, D.ALLOC_BASE + 1, D.ALLOC_BASE + 2]):
        if rng.random() < 0.6:
            bal[a] = rng.choice(pool)
    if rng.random() < 0.8:
        bal[MAIN] = rng.choice([1, 2, 3, 5, 6, 10, 10, 100, 100])
    value = rng.choice([0, 0, 1, 5])
    return D.Inputs([], caller, origin, value, bal, rng.choice([0, 0, 0, 7]))


def model_request(frame, static, inp, addrs, slots, code_addrs):
    bals = ";".join(f"{hx(a)}={hx(v)}" for a, v in sorted(inp.balances.items())) or "-"
    return " ".join(["run", "1" if static else "0", hx(MAIN), hx(inp.caller), hx(inp.origin), hx(inp.value), hx(inp.baldefault), bals,
                     ";".join(hx(a) for a in code_addrs) or "-", ";".join(hx(s) for s in slots) or "-",
                     ";".join(hx(a) for a in addrs) or "-"] + tokens(frame))


def parse_model(reply):
    f = dict(tok.split("=", 1) for tok in reply.split(" "))

    def cells(s):
        out = {}
        if s != "-":
            for e in s.split(","):
                k, v = e.rsplit("=", 1)
                a, sl = k.split(":")
                out[(int(a, 16), int(sl, 16))] = int(v, 16)
        return out

    bal = {}
    for e in f["balances"].split(","):
        a, v = e.split("=")
        bal[int(a, 16)] = int(v, 16)
    codes = {}
    if f["codes"] != "-":
        for e in f["codes"].split(","):
            a, v = e.split("=")
            codes[int(a, 16)] = None if v == "none" else (b"" if v == "-" else bytes.fromhex(v))
    kind = {"ret": "success", "revert": "revert", "halt": "invalidOpcode"}.get(f["out"], f["out"])
    return {"kind": kind, "data": b"" if f["data"] == "-" else bytes.fromhex(f["data"]), "storage": cells(f["storage"]),
            "transient": cells(f["transient"]), "balances": bal, "codes": codes, "cnt": int(f["cnt"])}


# --------------------------------------------------------------------------------------------------
# observation of the implementation / the reference EVM, restricted to the model's universe
# --------------------------------------------------------------------------------------------------

def observe_impl(sr, p, pe, model):
    import z3
    from halmos.bitvec import HalmosBitVec as BV
    from halmos.sevm import con_addr

    ex = p.ex
    obs = {"kind": p.kind, "data": pe.bytes_of(p.data) if p.kind in ("success", "revert") else b"", "storage": {}, "transient": {},
           "balances": {}, "codes": {}}
    univ = list(model["balances"])
    slots = sorted({s for (_, s) in list(model["storage"]) + list(model["transient"])} | set(model.get("_slots", [])))
    for a in univ:
        addr = con_addr(a)
        for s in slots:
            if addr in ex.storage:
                v = pe.word(sr.sevm.sload(ex, addr, BV(s, size=256)))
                if v:
                    obs["storage"][(a, s)] = v
            if addr in ex.transient_storage:
                v = pe.word(sr.sevm.sload(ex, addr, BV(s, size=256), transient=True))
                if v:
                    obs["transient"][(a, s)] = v
        obs["balances"][a] = pe.word(ex.balance_of(BV(a, size=160)))
    code = {}
    for addr, c in ex.code.items():
        if z3.is_bv_value(addr):
            code[addr.as_long()] = c
    for a in model["codes"]:
        obs["codes"][a] = pe.bytes_of(code[a]._code) if a in code else None
    obs["cnt"] = ex.cnts["address"]
    return obs


def observe_spec(conc, model, inp):
    obs = {"kind": conc.halt, "data": conc.data if conc.halt in ("success", "revert") else b"", "storage": {}, "transient": {},
           "balances": {}, "codes": {}}
    univ = set(model["balances"])
    obs["storage"] = {k: v for k, v in conc.storage.items() if k[0] in univ and v}
    obs["transient"] = {k: v for k, v in conc.transient.items() if k[0] in univ and v}
    for a in univ:
        obs["balances"][a] = conc.balances.get(a, inp.balances.get(a, inp.baldefault))
    for a in model["codes"]:
        obs["codes"][a] = conc.codes.get(a)
    obs["cnt"] = conc.created
    return obs


def root_flags(ctx, frame, model):
    """what the root frame saw per call/create, read back from the accumulator it returned (evidence that failing and
    succeeding sub-frames of every kind actually occur)"""
    if model["kind"] not in ("success", "revert"):
        return
    words = [int.from_bytes(model["data"][i:i + 32], "big") for i in range(0, len(model["data"]) - 31, 32)]
    n = 5
    for a in frame["acts"]:
        if a[0] == "Z":
            n += 5
        elif a[0] == "C":
            if n + 1 < len(words):
                ctx.count(f"calls:root-saw:{OPS[a[1]]}{':value' if a[3] else ''}{':nocode' if a[5] is None else ''}:flag={min(words[n], 1)}"
                          f":rd={'0' if words[n + 1] == 0 else '>0'}")
            n += 5
        elif a[0] == "N":
            if n + 1 < len(words):
                ctx.count(f"calls:root-saw:CREATE{':value' if a[1] else ''}:{'ok' if words[n] else 'failed'}:rd={'0' if words[n + 1] == 0 else '>0'}")
            n += 3


FIELDS = ["kind", "data", "storage", "transient", "balances", "codes", "cnt"]


def diff(x, y):
    return [k for k in FIELDS if x[k] != y[k]]


def show(obs):
    return {"kind": obs["kind"], "data": obs["data"].hex(), "storage": {f"{a:x}:{s:x}": hex(v) for (a, s), v in sorted(obs["storage"].items())},
            "transient": {f"{a:x}:{s:x}": hex(v) for (a, s), v in sorted(obs["transient"].items())},
            "balances": {f"{a:x}": v for a, v in sorted(obs["balances"].items())},
            "codes": {f"{a:x}": (None if c is None else c.hex()) for a, c in sorted(obs["codes"].items())}, "cnt": obs["cnt"]}


# --------------------------------------------------------------------------------------------------
# the run
# --------------------------------------------------------------------------------------------------

class _Quiet:
    """drop halmos' per-CREATE 'unknown deployed bytecode' warning (the created code is generated, never in a build map)"""

    def filter(self, record):
        return "unknown deployed bytecode" not in record.getMessage()


def evaluate(ctx, cases):
    """cases: list of (name, frame, static, cfg, inputs list). Returns the number of compared (tree, input) pairs."""
    import logging

    quiet, loggers = _Quiet(), [logging.getLogger("halmos"), logging.getLogger("halmos.unique")]
    for lg in loggers:
        lg.addFilter(quiet)
    try:
        return _evaluate(ctx, cases)
    finally:
        for lg in loggers:
            lg.removeFilter(quiet)


def _evaluate(ctx, cases):
    prepared = []
    for name, frame, static, cfg, inputs in cases:
        scn = compile_tree(frame, static)
        addrs, slots, code_addrs = universe(frame)
        sr = D.symbolic_run(scn, **cfg)
        ctx.count(f"calls:paths:{min(len(sr.paths), 33)}")
        if sr.escaped:
            ctx.count("calls:escaped:" + sr.escaped.split(":")[0])
            if not sr.escaped.startswith("TimeoutError"):
                ctx.violation(f"callsmodel|escaped:{sr.escaped.split(':')[0]}", f"an exception escaped SEVM.run on a call tree: {sr.escaped[:200]}",
                              {"kind": "callsmodel", "tree": frame, "static": static, "config": cfg})
            continue
        prepared.append((name, frame, static, cfg, inputs, scn, sr, addrs, slots, code_addrs))
    lines, jobs = [], []
    for name, frame, static, cfg, inputs, scn, sr, addrs, slots, code_addrs in prepared:
        for inp in inputs:
            univ = sorted(set(addrs) | {inp.caller})
            lines.append(model_request(frame, static, inp, univ, slots, code_addrs))
            jobs.append((scn, inp))
    replies = ctx.lean("Calls").ask(lines)
    if any(r == "bad-op" for r in replies):
        raise RuntimeError("Driver/Calls.lean rejected a request: " + lines[replies.index("bad-op")][:300])
    concs = D.run_concrete_batch(ctx, jobs)
    k = 0
    compared = 0
    for name, frame, static, cfg, inputs, scn, sr, addrs, slots, code_addrs in prepared:
        feats = tree_features(frame, static)
        has_svc = "value-call-in-static" in feats
        for inp in inputs:
            model = parse_model(replies[k])
            model["_slots"] = slots
            conc = concs[k]
            k += 1
            if conc.halt == "outOfFuel":
                ctx.count("calls:reference-out-of-fuel")
                continue
            covering = []
            for j, p in enumerate(sr.paths):
                pe = D.PathEval(inp)
                try:
                    if pe.satisfies(p.conds):
                        covering.append((j, p, pe))
                except D.Unknown as u:
                    ctx.count("calls:eval-unknown:" + str(u)[:30])
            replay = {"kind": "callsmodel", "name": name, "tree": frame, "static": static, "config": cfg,
                      "contracts": {hex(a): c.hex() for a, c in scn.contracts.items()},
                      "inputs": {"caller": hex(inp.caller), "origin": hex(inp.origin), "value": hex(inp.value),
                                 "balances": {hex(a): hex(v) for a, v in inp.balances.items()}, "baldefault": hex(inp.baldefault)},
                      "model": show(model)}
            spec = observe_spec(conc, model, inp)
            ms = diff(model, spec)
            if not covering:
                ctx.count("calls:uncovered-input")
                if not has_svc or not ms:
                    ctx.violation(f"callsmodel|uncovered:{model['kind']}", "no reported path covers an input of a call tree "
                                  f"(model outcome {model['kind']})", dict(replay, reference=show(spec)))
                continue
            for j, p, pe in covering:
                if p.kind.startswith("stuck:"):
                    ctx.count("calls:covered-by-stuck")
                    continue
                try:
                    impl = observe_impl(sr, p, pe, model)
                except D.Unknown as u:
                    ctx.count("calls:eval-unknown-state:" + str(u)[:30])
                    continue
                compared += 1
                root_flags(ctx, frame, model)
                ctx.case(("calls", json.dumps(frame, sort_keys=True), static, inp.key()))
                ctx.count("calls:outcome:" + impl["kind"])
                mi = diff(model, impl)
                si = diff(spec, impl)
                if mi:
                    what = (f"call tree {name}: the implementation differs from the model in {mi} "
                            f"(impl {show(impl)}; model {show(model)})")
                    if not si and not (has_svc and ms):
                        raise RuntimeError("Model.Calls is stale — the reference EVM agrees with the implementation: " + what[:1500])
                    ctx.violation(f"callsmodel|impl-vs-model:{'+'.join(mi)}", what[:1500],
                                  dict(replay, path=j, implementation=show(impl), reference=show(spec)))
                elif si:
                    if has_svc:
                        ctx.count("calls:known-deviation:value-call-in-static (model = impl ≠ reference)")
                    else:
                        ctx.violation(f"callsmodel|impl-vs-reference:{'+'.join(si)}",
                                      f"call tree {name}: implementation and model agree but the reference EVM differs in {si}",
                                      dict(replay, path=j, implementation=show(impl), reference=show(spec)))
                else:
                    ctx.count("calls:agree-3way")
    return compared


def run(ctx, n_trees, n_inputs):
    import time

    rng = ctx.rng
    t0 = time.time()
    lits = harvest_literals()
    ctx.extra["calls_literals"] = len(lits)
    cases = []
    # stored cases first
    cdir = VERIF / "corpus" / "C09"
    if cdir.is_dir():
        for pth in sorted(cdir.glob("calls_*.json")):
            d = json.loads(pth.read_text())
            inp = d.get("inputs")
            inputs = [inputs_from_json(inp)] if inp else []
            addrs, _, _ = universe(d["tree"])
            inputs += [gen_inputs(rng, addrs, lits) for _ in range(n_inputs)]
            cases.append(("corpus:" + pth.stem, d["tree"], bool(d.get("static")), d.get("config", {}), inputs))
            ctx.count("calls:corpus")
    for name, (frame, static) in DIRECTED.items():
        addrs, _, _ = universe(frame)
        rich = D.Inputs([], 0xCAFE, 0xBEEF, 1, {MAIN: 100}, 0)
        cases.append(("directed:" + name, frame, static, {}, [rich] + [gen_inputs(rng, addrs, lits) for _ in range(n_inputs + 2)]))
        ctx.count("calls:directed")
    for i in range(n_trees):
        frame = gen_tree(rng, lits)
        static = rng.random() < 0.1
        addrs, _, _ = universe(frame)
        cases.append((f"random:{i}", frame, static, rng.choice(CFGS), [gen_inputs(rng, addrs, lits) for _ in range(n_inputs)]))
    for _, frame, static, _, _ in cases:
        for f in tree_features(frame, static):
            ctx.count("calls:gen:" + f)
    n = evaluate(ctx, cases)
    ctx.extra["calls_trees"] = len(cases)
    ctx.extra["calls_compared"] = n
    ctx.extra["calls_wall_s"] = round(time.time() - t0, 1)


def inputs_from_json(d):
    return D.Inputs([], int(d["caller"], 16), int(d["origin"], 16), int(d["value"], 16),
                    {int(a, 16): int(v, 16) for a, v in d.get("balances", {}).items()}, int(d.get("baldefault", "0x0"), 16))


def replay(ctx, data) -> bool:
    """re-run one stored (tree, input) on the real code; True if implementation and model still differ"""
    inp = inputs_from_json(data["inputs"])
    before = len(ctx.violations) if hasattr(ctx, "violations") else None
    try:
        evaluate(ctx, [(data.get("name", "replay"), data["tree"], bool(data.get("static")), data.get("config", {}), [inp])])
    except RuntimeError as e:
        print(str(e)[:400])
        return True
    if before is not None:
        return len(ctx.violations) > before
    return False
