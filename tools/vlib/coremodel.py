"""Correspondence between Model.Sevm (Lean) and the real SEVM on programs over the *core* instruction set, with the solver
behind Path.check replaced by a fixed answer (`unknown` or `sat` for every query — both are sound oracles). With the
oracle fixed, the exploration (which branches are followed, visit counters, loop bound, --depth cut, end states) is a
deterministic function of the program and the options, so the two sides must agree exactly on
  * the multiset of end states (outcome kind, pc at the end),
  * the number of bounded-loop flags, whether the --depth warning was raised,
  * for a few concrete inputs per program: the end states whose path the input satisfies, each with its return / revert
    data and the non-zero plain storage / transient storage slots of the executing account evaluated under the input
    (the implementation's terms by vlib.zeval, the model's by the Lean driver).
Storage instructions are generated on the literal slots 0..3 only (hashed / symbolic slots are outside the core model);
one program in ten that stores runs in a static frame (WriteInStaticContext).
Message calls (Model.SevmCalls): half of the programs come with one or two callee contracts (0x3000, and 0x2000 which
may call 0x3000) and are built around call sites — CALL / CALLCODE with value 0, DELEGATECALL, STATICCALL to a callee or
to the code-less 0x4000, plain arguments in a scratch area, possibly dirty return areas of every size, the success flag
and RETURNDATASIZE stored into the memory the program finally returns, RETURNDATACOPY, calls inside loops, nested calls,
static callers; callees store msg.sender / address / calldatasize and write storage before returning, reverting or
failing. The storage of *every* account is compared. Not generated: symbolic targets, precompiles and cheat-code
addresses, non-zero value, memory-limit violations inside callees (see the header of Model/SevmCalls.lean).

CREATE (Model.SevmCalls with `Cfg.create`): one program in three contains CREATE sites — constructors that deploy a
small runtime (which is then called: CALL / STATICCALL / DELEGATECALL to the address CREATE left on the stack), store
value / address / calldatasize, emit a log, probe CALLDATASIZE / CODESIZE and revert, fail, or are empty; with and
without value; inside callees (rolled back with them; the attempt counter is not); sometimes the address the second
attempt gets is already taken (collision rule). Compared in addition: the code of the created accounts (`C<addr>=…`),
their storage and balances. Not generated: init code with symbolic bytes, CREATE2.

Storage at hashed locations (Model.SevmCalls with `Cfg.hsto`): Solidity mapping cells `m[key]` (slot
keccak(key ‖ base), bases 5 and 6; keys symbolic — calldata words, CALLER / ADDRESS / CALLVALUE — or literal, the same
key again or another one) and dynamic-array elements `a[i]` (slot keccak(base) + i, bases 7 and 8; literal indices, 0
included, and symbolic ones, masked to a byte in callees) are stored and loaded, in the program under test and in
callees (rolled back with a failing frame, the caller's cells under DELEGATECALL / CALLCODE); the loaded values go to the
memory the program returns. Not generated: nested mappings, packed / non-256-bit keys, struct offsets, literal
locations far from every registered hash (plain slots beyond 2^64), hashed TLOAD / TSTORE.

Two transactions (Model.SevmCalls `nextTx` / `runCFrom`; `SEVM.run_message` with `path.extend_path`, as
`__main__.run_message` runs a test after setUp): four programs in ten (never static ones) are run as the "setUp"
message — the same code, no argument words — and then, when exactly one path of that run ends without error (`setup()`'s
rule; otherwise both sides must report `setup:<count>`), as the message with its symbolic arguments from the state
that path left: storage of every account, code (created accounts), balances, the CREATE counter, the hashed cells
and the path conditions are inherited, transient storage is fresh, loop counters start again. These programs begin
with a probe `s[k] += c; t[k] += c; m[key] += c` so that each of these rules is visible in the final state.

What the generator deliberately avoids, because there the model is an approximation or z3's simplifier is stronger than
the driver's (Driver/Sevm.lean: constant folding + double-negation elimination):
  * symbolic values in the positions `int_of` concretises through `substitute(x, substitution)` (JUMPI/JUMP targets,
    CALLDATALOAD offsets, RETURN/REVERT offset and size, SIGNEXTEND size are literals) — the model says *stuck* there;
  * two *different but equivalent* conditions on one path (each loop counts on its own calldata argument, every `if`
    compares with a fresh random constant), so that the structural quick checks of Exec.check (`cond in path`,
    `simplify(Not(cond)) in path`) hit on both sides or on neither. Identical conditions (same code run twice) are fine.
It deliberately *includes* `arg == const` branches followed by further reads of the same argument: the code's
Path.concretization.substitution then makes those reads concrete, and so does the model (SState.subst).
"""
from __future__ import annotations

import logging

from . import asm
from . import evmdiff as D

MEMOFF = [0, 0, 32, 32, 64, 1, 31, 33, 96]     # mostly word-aligned; a few overlapping / unaligned accesses
CONST = [0, 1, 2, 3, 5, 7, 42, 255, 256, (1 << 255), (1 << 256) - 1]
BIN = ["ADD", "MUL", "SUB", "DIV", "SDIV", "MOD", "SMOD", "LT", "GT", "SLT", "SGT", "EQ", "AND", "OR", "XOR", "BYTE",
       "SHL", "SHR", "SAR", "EXP", "SIGNEXTEND"]


class CoreGen:
    """programs over the core set (see the module docstring for what is avoided and why)"""

    def __init__(self, rng, nargs, callee=False, targets=()):
        self.rng, self.nargs, self.n = rng, nargs, 0
        self.callee = callee            # a callee contract: calldata = 2 words without selector, no loops
        self.targets = list(targets)    # addresses this program may call
        self.hist = {}
        self.loop_args = list(range(nargs))     # arguments not yet used as a loop trip count
        rng.shuffle(self.loop_args)
        self.consts = set()
        self.conds = []
        self.has_code = [0x1000]        # accounts known to have code when this program runs

    def count(self, k):
        self.hist[k] = self.hist.get(k, 0) + 1

    def fresh(self):
        self.n += 1
        return f"L{self.n}"

    def fresh_const(self):
        while True:
            c = self.rng.randrange(2, 1 << 16)
            if c not in self.consts:
                self.consts.add(c)
                return c

    def arg(self, i=None):
        i = self.rng.randrange(self.nargs) if i is None else i
        return [("push", (0 if self.callee else 4) + 32 * i), "CALLDATALOAD"]

    def plain(self):
        r = self.rng
        k = r.random()
        if k < 0.6:
            return self.arg()
        if k < 0.85:
            return [("push", r.choice(CONST))]
        return [r.choice(["CALLER", "CALLVALUE", "ORIGIN", "ADDRESS"])]

    def expr(self, d):
        r = self.rng
        if d == 0 or r.random() < 0.35:
            k = r.random()
            if k < 0.45:
                return self.arg()
            if k < 0.55:
                self.count("mem:MLOAD")
                # reads do not allocate: the `MAX_MEMORY_SIZE` boundary of `mloc(check_size=True)` is probed here
                off = r.choice(MEMOFF) if (self.callee or r.random() < 0.93) else r.choice([1 << 20, 1 << 20, (1 << 20) + 1])
                return [("push", off), "MLOAD"]
            if k < 0.63:
                op = r.choice(["SLOAD", "SLOAD", "TLOAD"])
                self.count("sto:" + op)
                return [("push", r.randrange(4)), op]
            if k < 0.8:
                return [("push", r.choice(CONST))]
            if k < 0.84:
                # a digest: Keccak of a memory range (empty, one byte, a word, two words, an unaligned size); the range
                # holds whatever was stored before — literals (a concrete digest) or calldata words (f_sha3_N(…))
                self.count("sha3")
                return [("push", r.choice([0, 1, 32, 64, 33])), ("push", r.choice([0, 0, 32, 5, 0x100])), "SHA3"]
            if k < 0.9:
                # balances: of this account, of a literal account, of the (symbolic) caller
                self.count("bal:read")
                return r.choice([["SELFBALANCE"], [("push", r.choice([0x1000, 0x2000, 0x3000, 0x4000, 5])), "BALANCE"],
                                 ["CALLER", "BALANCE"]])
            return [r.choice(["CALLER", "CALLVALUE", "ORIGIN", "ADDRESS", "CALLDATASIZE", "PC"])]
        k = r.random()
        if k < 0.15:
            return self.expr(d - 1) + [r.choice(["ISZERO", "NOT"])]
        if k < 0.22:
            return self.expr(d - 1) + self.expr(d - 1) + self.expr(d - 1) + [r.choice(["ADDMOD", "MULMOD"])]
        op = r.choice(BIN)
        a, b = self.expr(d - 1), self.expr(d - 1)
        if op in ("EXP", "SIGNEXTEND", "BYTE", "SHL", "SHR", "SAR"):
            a = [("push", r.choice([0, 1, 2, 3, 31, 32, 255, 256]))]   # top operand concrete (size / shift / exponent)
        self.count("op:" + op)
        return b + a + [op]

    def cond(self):
        r = self.rng
        self.count("cond")
        if self.conds and r.random() < 0.25:
            # the very same condition again: decided by the quick checks of Exec.check (`cond in path`,
            # `simplify(Not(cond)) in path`) on whichever branch we are, or by the concretization after `arg == const`
            c, i, op = r.choice(self.conds)
            self.count("cond:repeated")
        else:
            c, i, op = self.fresh_const(), r.randrange(self.nargs), r.choice(["EQ", "EQ", "LT", "GT", "SLT", "SGT"])
            self.conds.append((c, i, op))
        self.count("cond:" + op)
        return [("push", c)] + self.arg(i) + [op]

    def stmt(self, d):
        r = self.rng
        kinds = (["pop", "mstore", "mstore", "mstore8", "copy", "sstore", "sstore", "if", "if", "loop", "dupswap"] if d > 0
                 else ["pop", "mstore", "copy", "sstore", "dupswap"])
        if self.callee:
            kinds = [k for k in kinds if k != "loop"]
        kinds += ["log", "log", "ext", "ext", "ext", "sha", "sha"]
        if self.targets:
            kinds += ["call", "call", "call"] if d > 0 else ["call"]
        k = r.choice(kinds)
        self.count("stmt:" + k)
        if k == "call":
            return self.call_site()
        if k == "sha":
            # a digest of data that is partly symbolic (a calldata word stored just before) or concrete, written where
            # the final RETURN shows it
            self.count("sha3:stmt")
            self.count("mem:MSTORE")
            off = r.choice([0, 32, 0x100])
            pre = (self.arg() if r.random() < 0.7 else [("push", r.choice(CONST))]) + [("push", off), "MSTORE"]
            return pre + [("push", r.choice([0, 1, 32, 64, 33])), ("push", off), "SHA3",
                          ("push", r.choice([0, 32, 64, 96])), "MSTORE"]
        if k == "log":
            return self.log_stmt()
        if k == "ext":
            return self.ext_stmt()
        if k == "sstore":
            op = r.choice(["SSTORE", "SSTORE", "TSTORE"])
            self.count("sto:" + op)
            slot = r.randrange(4)
            out = self.expr(2) + [("push", slot), op]
            if r.random() < 0.6:
                # read the slot back — from either kind of storage — into memory, where the final RETURN shows it
                ld = r.choice(["SLOAD", "TLOAD"])
                self.count("sto:" + ld)
                out += [("push", slot), ld, ("push", r.choice([0, 32, 64, 96])), "MSTORE"]
                self.count("mem:MSTORE")
            return out
        if k == "copy":
            op = r.choice(["CALLDATACOPY", "CODECOPY"])
            self.count("mem:" + op)
            size = r.choice([0, 1, 4, 32, 36, 64]) if (self.callee or r.random() < 0.95) else r.choice([(1 << 20) + 1, 1 << 30])
            return [("push", size), ("push", r.choice([0, 0, 3, 4, 36, 100, 1 << 30])), ("push", r.choice(MEMOFF)), op]
        if k == "mstore":
            self.count("mem:MSTORE")
            off = r.choice(MEMOFF) if (self.callee or r.random() < 0.97) else r.choice([(1 << 20) + 1, 1 << 30])   # never a valid huge write: the model's memory is a list
            return self.expr(2) + [("push", off), "MSTORE"]
        if k == "mstore8":
            self.count("mem:MSTORE8")
            return self.expr(1) + [("push", r.choice(MEMOFF)), "MSTORE8"]
        if k == "pop":
            return self.expr(2) + ["POP"]
        if k == "dupswap":
            op = r.choice(["SWAP1", "DUP2", "DUP1"])
            return self.expr(1) + self.expr(1) + [op, "POP", "POP"] + (["POP"] if op != "SWAP1" else [])   # stack-neutral
        if k == "if":
            els, end = self.fresh(), self.fresh()
            return (self.cond() + [("ref", els), "JUMPI"] + self.block(d - 1) + [("ref", end), "JUMP", ("label", els)]
                    + self.block(d - 1) + [("label", end)])
        return self.loop()

    def log_stmt(self):
        """LOG0..LOG4 with plain topics; the data is a memory range (mostly small; rarely around MAX_MEMORY_SIZE)"""
        r = self.rng
        n = r.choice([0, 1, 1, 2, 3, 4])
        self.count(f"log:LOG{n}")
        out = []
        for _ in range(n):
            out += self.plain()
        if self.callee or r.random() < 0.95:
            size, off = r.choice([0, 1, 32, 32, 33, 64]), r.choice([0, 0, 32, 5, 0x100])
        else:
            off, size = r.choice([((1 << 20) - 32, 32), ((1 << 20) - 31, 32), (1 << 30, 0)])
        return out + [("push", size), ("push", off), f"LOG{n}"]

    def ext_stmt(self):
        """EXTCODESIZE / CODESIZE stored where the final RETURN shows it, or EXTCODECOPY, on literal addresses: this
        contract, the callees, accounts without code"""
        r = self.rng
        addr = r.choice([0x1000, 0x2000, 0x3000, 0x4000, 5])
        k = r.random()
        if k < 0.35:
            self.count("ext:EXTCODESIZE")
            self.count("mem:MSTORE")
            return [("push", addr), "EXTCODESIZE", ("push", r.choice([0, 32, 64, 96])), "MSTORE"]
        if k < 0.6:
            self.count("ext:CODESIZE")
            self.count("mem:MSTORE")
            return ["CODESIZE", ("push", r.choice([0, 32, 64, 96])), "MSTORE"]
        self.count("ext:EXTCODECOPY")
        size = r.choice([0, 1, 4, 32, 36, 64])
        off = r.choice([0, 0, 1, 3, 4, 36, 100, 1 << 30])
        loc = r.choice(MEMOFF) if r.random() < 0.3 else r.choice([0, 32, 64, 96])
        out = []
        if r.random() < 0.6:
            # a dirty destination: every byte the copy must overwrite (code bytes or zero padding) is visible
            self.count("mem:MSTORE")
            for k in range((size + 31) // 32):
                out += [("push", (1 << 256) - 1), ("push", loc + 32 * k), "MSTORE"]
        return out + [("push", size), ("push", off), ("push", loc), ("push", addr), "EXTCODECOPY"]

    def loop(self, body=None):
        # the counter lives on the stack; a symbolic trip count uses an argument no other loop counts on
        r = self.rng
        body = self.block(0) if body is None else body
        top, end = self.fresh(), self.fresh()
        symbolic = bool(self.loop_args) and r.random() < 0.6
        if symbolic:
            n = self.arg(self.loop_args.pop()) + [("push", 7), "AND"]
            self.count("loop:symbolic")
        else:
            n = [("push", r.randrange(0, 4))]
            self.count("loop:concrete")
        if r.random() < 0.4:
            # do-while: the *taken* branch of the JUMPI continues the loop (exercises the `True` visit counter and a
            # bit-vector, not Bool, condition). The count is at least 1 — `(arg & 7) + 1` or a literal 1..3 — so that the
            # counter cannot wrap around within the at most 4 iterations `--loop <= 3` allows (after a wrap z3 proves the
            # condition true and the real engine, rightly, loops 2^256 times).
            self.count("loop:do-while")
            n = (n + [("push", 1), "ADD"]) if symbolic else [("push", r.randrange(1, 4))]
            return (n + [("label", top)] + body
                    + [("push", 1), "SWAP1", "SUB", "DUP1", ("ref", top), "JUMPI", "POP"])
        return (n + [("label", top), "DUP1", "ISZERO", ("ref", end), "JUMPI"] + body
                + [("push", 1), "SWAP1", "SUB", ("ref", top), "JUMP", ("label", end), "POP"])

    def call_site(self):
        """a message call: arguments in a scratch area written by aligned MSTOREs only (0x100, 0x120), a return area
        that may be dirty, the success flag and RETURNDATASIZE stored where the final RETURN shows them, sometimes a
        RETURNDATACOPY"""
        r = self.rng
        op = r.choice(["CALL", "CALL", "STATICCALL", "DELEGATECALL", "DELEGATECALL", "CALLCODE"])
        to = r.choice(self.targets + [0x4000])          # 0x4000: an account without code
        self.count("call:" + op)
        self.count("call:to-" + ("nocode" if to == 0x4000 else "code"))
        out = []
        asize = r.choice([0, 32, 64, 64])
        for w in range(asize // 32):
            # plain arguments (a calldata word, a literal, an environment value): nothing z3 could fold further than the
            # driver's simplifier, so that the callee's branches on them are symbolic / concrete on both sides alike
            out += self.plain() + [("push", 0x100 + 32 * w), "MSTORE"]
        roff, rsize = r.choice([0, 32, 64, 0x140]), r.choice([0, 1, 32, 32, 64, 96, 96])
        if r.random() < 0.5:                            # dirty return area
            out += self.expr(1) + [("push", roff), "MSTORE"]
        out += [("push", rsize), ("push", roff), ("push", asize), ("push", 0x100)]
        if op in ("CALL", "CALLCODE"):
            k = r.random()
            if self.callee or k < 0.55:
                out += [("push", 0)]
            else:
                # a value-bearing call (never from a callee: it may run in a static frame — known finding): a small
                # literal, the balance boundary, or a symbolic amount; both the insufficient-funds branch and the
                # transfer are explored
                self.count("call:value")
                out += r.choice([[("push", 1)], [("push", 5)], [("push", 1000)], [("push", 1 << 128)],
                                 self.arg() + [("push", 0xFFFF), "AND"], ["CALLVALUE"]])
        out += [("push", to), ("push", r.choice([0, 0xFFFF, 1 << 40])), op]
        k = r.random()
        if k < 0.5:
            out += [("push", r.choice([0, 96, 0x160])), "MSTORE"]     # the success flag
        elif k < 0.7:
            out += ["POP", "RETURNDATASIZE", ("push", r.choice([32, 96, 0x160])), "MSTORE"]
        else:
            out += ["POP"]
        if r.random() < 0.3:
            self.count("call:RETURNDATACOPY")
            out += [("push", r.choice([0, 1, 32, 33, 64])), ("push", r.choice([0, 0, 1, 32])),
                    ("push", r.choice([0, 64, 0x180])), "RETURNDATACOPY"]
        self.count("mem:MSTORE")
        return out

    # constructors (init codes) for CREATE: at most 32 bytes, written by one MSTORE
    _RUNTIME = bytes.fromhex("336000523060205260406000f3")         # returns (msg.sender, address(this))
    INITS = {
        "runtime": bytes([0x6C]) + _RUNTIME + bytes.fromhex("600052600d6013f3"),   # deploys _RUNTIME
        "revert": bytes.fromhex("3360005260206000fd"),                # reverts with msg.sender
        # sstore(1, value), sstore(2, this), sstore(3, calldatasize + 1); empty code
        "store": bytes.fromhex("3460015530600255" "3660010160035560006000f3"),
        "probe": bytes.fromhex("3660005238602052" "60406000fd"),      # reverts with (calldatasize, codesize)
        "log": bytes.fromhex("33600060" "00a1" "60016000f3"),         # log1 by the new account; code = one zero byte
        "invalid": bytes([0xFE]),
        "empty": b"",
        # (init code with symbolic bytes: the model is stuck at the CREATE, the code inside the constructor frame, after
        # the value transfer — outside the core, not generated)
    }

    def create_site(self):
        """a CREATE: the init code in the scratch area, the new address (or 0) stored where the final RETURN shows it,
        sometimes RETURNDATASIZE / EXTCODESIZE of the new account and a call into it"""
        r = self.rng
        kind = r.choice(["runtime", "runtime", "runtime", "revert", "store", "store", "probe", "log", "invalid",
                         "empty"])
        self.count("create:" + kind)
        out = []
        init = self.INITS[kind]
        size = len(init)
        if init:
            out += [("push", int.from_bytes(init.ljust(32, b"\0"), "big")), ("push", 0x100), "MSTORE"]
        if self.callee or r.random() < 0.6:
            out += [("push", size), ("push", 0x100), ("push", 0)]
        else:
            self.count("create:value")
            out += [("push", size), ("push", 0x100)] + r.choice([[("push", 1)], [("push", 5)], [("push", 1 << 128)],
                                                                 self.arg() + [("push", 0xFF), "AND"], ["CALLVALUE"]])
        out += ["CREATE", "DUP1", ("push", r.choice([0x160, 0x180, 64])), "MSTORE"]
        k = r.random()
        if k < 0.3:
            out += ["RETURNDATASIZE", ("push", r.choice([32, 96])), "MSTORE"]
        elif k < 0.5:
            out += [("push", 32), ("push", 0), ("push", r.choice([0, 0x120])), "RETURNDATACOPY"]
        if r.random() < 0.3:
            out += ["DUP1", "EXTCODESIZE", ("push", r.choice([0, 0x140])), "MSTORE"]
        if r.random() < 0.6:
            # a call into the new account (address on the stack; 0 after a failed creation: an account without code)
            op = r.choice(["CALL", "CALL", "STATICCALL", "DELEGATECALL"])
            self.count("create:then-" + op)
            roff, rsize = r.choice([0, 32, 0x120]), r.choice([0, 32, 64, 64])
            out += [("push", rsize), ("push", roff), ("push", 0), ("push", 0)]
            if op == "CALL":
                out += [("push", 0), "DUP6"]
            else:
                out += ["DUP5"]
            out += [("push", 0xFFFF), op, ("push", r.choice([96, 0x180])), "MSTORE"]
        out += ["POP"]
        self.count("mem:MSTORE")
        return out

    def _hash_loc(self, key_items, base):
        """the location of m[key] for the mapping at slot `base`: keccak(key ‖ base), hashed in a scratch area the
        program does not return"""
        return key_items + [("push", 0x1c0), "MSTORE", ("push", base), ("push", 0x1e0), "MSTORE",
                            ("push", 64), ("push", 0x1c0), "SHA3"]

    def _map_key(self):
        r = self.rng
        k = r.random()
        if k < 0.5:
            return self.arg()                                   # a symbolic key
        if k < 0.8:
            return [("push", r.choice([0, 1, 7, 0xABCDEF, (1 << 255) + 3]))]    # a literal key: a concrete digest
        return [r.choice(["CALLER", "ADDRESS", "CALLVALUE"])]

    def _arr_loc(self, index_items, base):
        """the location of a[index] for the dynamic array at slot `base`: keccak(base) + index"""
        return index_items + [("push", base), ("push", 0x1c0), "MSTORE", ("push", 32), ("push", 0x1c0), "SHA3", "ADD"]

    def arr_stmt(self):
        """a Solidity dynamic-array element access `a[i] = value` / `x = a[i]` for the arrays at the slots 7 and 8:
        literal indices (0 included: the hash itself) and symbolic ones"""
        r = self.rng
        base = r.choice([7, 7, 8])
        if not hasattr(self, "arr_idx"):
            self.arr_idx = []
        if self.arr_idx and r.random() < 0.5:
            idx = r.choice(self.arr_idx)
        else:
            k = r.random()
            if k < 0.5:
                # a symbolic index; in a callee the calldata word may be a literal of the caller: masked, so that the
                # element stays near the hash (a literal location far from every registered hash is a plain slot beyond
                # 2^64: outside the core)
                idx = self.arg() + ([("push", 0xFF), "AND"] if self.callee or r.random() < 0.3 else [])
            else:
                idx = [("push", r.choice([0, 0, 1, 2, 5, 255]))]
            self.arr_idx.append(idx)
        if r.random() < 0.5:
            self.count("arr:store")
            return self.expr(1) + self._arr_loc(idx, base) + ["SSTORE"]
        self.count("arr:load")
        self.count("mem:MSTORE")
        return self._arr_loc(idx, base) + ["SLOAD", ("push", r.choice([0, 32, 64, 0x140, 0x160])), "MSTORE"]

    def arr_pattern(self):
        """two stores to different elements (another index, or the same index of the other array), then both loaded:
        an access that ignores the index, the base or the offset of a literal location shows"""
        r = self.rng
        base = r.choice([7, 8])
        i = [("push", r.choice([0, 1, 2]))]
        if r.random() < 0.5:
            j, base2 = [("push", r.choice([3, 5, 255]))], base
        else:
            j, base2 = (i if r.random() < 0.5 else self.arg() + [("push", 0xFF), "AND"]), 15 - base
        self.count("arr:pattern")
        self.count("mem:MSTORE")
        v1, v2 = r.choice([0x11, 0x22]), r.choice([0x33, 0x44])
        return ([("push", v1)] + self._arr_loc(i, base) + ["SSTORE"] + [("push", v2)] + self._arr_loc(j, base2) + ["SSTORE"]
                + self._arr_loc(i, base) + ["SLOAD", ("push", 0x140), "MSTORE"]
                + self._arr_loc(j, base2) + ["SLOAD", ("push", 0x160), "MSTORE"])

    def map_stmt(self):
        k = self.rng.random()
        if k < 0.15:
            return self.arr_pattern()
        if k < 0.4:
            return self.arr_stmt()
        return self._map_stmt()

    def _map_stmt(self):
        """a Solidity mapping access: `m[key] = value` or `x = m[key]` (stored where the final RETURN shows it) for the
        mappings at the slots 5 and 6; equal and different keys, symbolic and literal, meet in one program"""
        r = self.rng
        base = r.choice([5, 5, 6])
        if not hasattr(self, "map_keys"):
            self.map_keys = []
        if self.map_keys and r.random() < 0.5:
            key = r.choice(self.map_keys)                       # the same key again
        else:
            key = self._map_key()
            self.map_keys.append(key)
        if r.random() < 0.5:
            self.count("map:store")
            return self.expr(1) + self._hash_loc(key, base) + ["SSTORE"]
        self.count("map:load")
        self.count("mem:MSTORE")
        return self._hash_loc(key, base) + ["SLOAD", ("push", r.choice([0, 32, 64, 0x140, 0x160])), "MSTORE"]

    def callee_program(self):
        """a small callee: a few statements, maybe a branch on its calldata, then return / revert / invalid / stop"""
        r = self.rng
        items = []
        if r.random() < 0.3:
            # a context probe: msg.sender / address(this) / msg.value of the frame, returned (and sometimes stored), so
            # that the per-kind rules of CALL / CALLCODE / DELEGATECALL / STATICCALL are visible in the caller's memory
            self.count("callee:context-probe")
            what = ["CALLER", "ADDRESS", "CALLVALUE"]
            r.shuffle(what)
            for i, v in enumerate(what):
                items += [v, ("push", 32 * i), "MSTORE"]
            if r.random() < 0.5:
                items += ["CALLER", ("push", 3), "SSTORE"]
            if r.random() < 0.3:
                items += ["CALLVALUE", ("push", 2), "TSTORE"]
            if r.random() < 0.5:
                # an event of the callee: emitted by address(this), rolled back if the frame fails, refused if static
                self.count("log:LOG1")
                items += ["CALLER", ("push", r.choice([0, 32, 64])), ("push", 0), "LOG1"]
            self.count("callee:" + "RETURN")
            return items + [("push", r.choice([64, 96])), ("push", 0), r.choice(["RETURN", "RETURN", "REVERT"])]
        if r.random() < 0.8:
            # make the frame's context and its writes observable: msg.sender / address / value into memory (returned) or
            # storage (compared per account; rolled back if the frame fails; refused in a static frame)
            probes = [
                ["CALLER", ("push", 0), "MSTORE"], ["ADDRESS", ("push", 32), "MSTORE"], ["CALLVALUE", ("push", 0), "MSTORE"],
                ["CALLER", ("push", 3), "SSTORE"], ["ADDRESS", ("push", 2), "TSTORE"], [("push", 7), ("push", 1), "SSTORE"],
                ["CALLDATASIZE", ("push", 32), "MSTORE"], ["CALLER", ("push", 32), "MSTORE"],
                [("push", 9), ("push", 32), ("push", 0), "LOG1"], ["ADDRESS", "CALLER", ("push", 0), ("push", 0), "LOG2"],
            ]
            for probe in r.sample(probes, r.choice([1, 1, 2, 3])):
                items += probe
            self.count("callee:prelude")
        if self.targets and r.random() < 0.6:
            items += self.call_site()           # a nested call (the static flag must be inherited through it)
        if r.random() < 0.12:
            items += self.create_site()         # a CREATE inside a callee: rolled back with it, the counter is not
        for _ in range(r.choice([0, 0, 1, 2])):
            items += self.map_stmt()            # mapping cells of the callee's account (or, delegated, of the caller's)
        for _ in range(r.randrange(0, 3)):
            items += self.stmt(1)
        k = r.random()
        size, off = r.choice([0, 32, 64, 64, 33]), r.choice([0, 0, 32])
        if k < 0.55:
            fin = [("push", size), ("push", off), "RETURN"]
        elif k < 0.8:
            fin = [("push", size), ("push", off), "REVERT"]
        elif k < 0.9:
            fin = ["INVALID"]
        else:
            fin = ["STOP"]
        self.count("callee:" + (fin[-1]))
        if r.random() < 0.4:
            alt = self.fresh()
            items += self.cond() + [("ref", alt), "JUMPI"] + fin + [("label", alt)] + \
                self.stmt(0) + [("push", 32), ("push", 0), r.choice(["RETURN", "REVERT"])]
            return items
        return items + fin

    def block(self, d):
        out = []
        for _ in range(self.rng.randrange(0, 3)):
            out += self.stmt(d)
        return out

    def end(self):
        r = self.rng
        k = r.random()
        if k < 0.4:
            return ["STOP"]
        if k < 0.55:
            return ["INVALID"]
        if k < 0.7:
            if r.random() < 0.93:
                size = r.choice([0, 1, 32, 33, 64, 64, 100])
                off = r.choice([0, 0, 5, 32, 1 << 30] if not size else [0, 0, 5, 32])
            else:   # around MAX_MEMORY_SIZE: the last readable word, one byte too far, far too large (never a huge *valid* range)
                off, size = r.choice([((1 << 20) - 32, 32), ((1 << 20) - 31, 32), (0, (1 << 20) + 1), (0, 1 << 30)])
            self.count("mem:RETURN-data" if size else "mem:RETURN-empty")
            return [("push", size), ("push", off), r.choice(["RETURN", "REVERT"])]
        if k < 0.8:
            return [("push", r.choice([0, 1, 2, 0xFFFF])), "JUMP"]
        if k < 0.9:
            return ["POP", "POP"]
        return self.cond() + [("push", r.choice([0, 1, 3])), "JUMPI", "STOP"]   # symbolic JUMPI to an invalid destination

    def tx_probe(self):
        """what makes the hand-over between two transactions observable in the final state: `s[k] += c` on a plain slot
        (the second transaction must see the first one's write), `t[k] += c` on a transient slot (it must NOT), and
        `m[key] += c` on a mapping cell (the chain of hashed cells goes on; the key is a literal or an argument — zero
        in the first transaction)"""
        r = self.rng
        slot, tslot = r.choice([0, 1, 2, 9]), r.choice([0, 1, 3])
        c1, c2, c3 = r.choice([1, 3, 0x100]), r.choice([1, 5, 0x200]), r.choice([1, 7])
        items = [("push", slot), "SLOAD", ("push", c1), "ADD", ("push", slot), "SSTORE",
                 ("push", tslot), "TLOAD", ("push", c2), "ADD", ("push", tslot), "TSTORE"]
        self.count("tx2:probe")
        if r.random() < 0.6:
            key = self.arg() if r.random() < 0.5 else [("push", r.choice([0, 1, 7]))]
            base = r.choice([5, 6])
            items += self._hash_loc(key, base) + ["SLOAD", ("push", c3), "ADD"] + self._hash_loc(key, base) + ["SSTORE"]
            self.count("tx2:probe-map")
        return items

    def program(self):
        items = self._program()
        if getattr(self, "tx2", False):
            items = self.tx_probe() + items
        return items

    def _program(self):
        items = []
        if self.targets:
            # a caller: one to three call sites between a few other statements, then (mostly) return the whole scratch
            # memory — success flags, RETURNDATASIZE, return areas — so that every call is observable
            for _ in range(self.rng.randrange(1, 5)):
                if self.rng.random() < 0.5:
                    items += self.stmt(1)
                if self.rng.random() < 0.2:
                    items += self.create_site()
                for _ in range(self.rng.choice([0, 0, 1, 2])):
                    items += self.map_stmt()
                if self.rng.random() < 0.25:
                    # a call inside a loop: the caller's visit counters must survive the callee (which starts with none)
                    self.count("call:in-loop")
                    items += self.loop(self.call_site())
                else:
                    items += self.call_site()
            if self.rng.random() < 0.85:
                self.count("mem:RETURN-all")
                return items + [("push", 0x1a0), ("push", 0), self.rng.choice(["RETURN", "RETURN", "REVERT"])]
            return items + self.end()
        for _ in range(self.rng.randrange(1, 5)):
            items += self.stmt(2)
            if self.rng.random() < 0.15:
                items += self.create_site()
            for _ in range(self.rng.choice([0, 0, 0, 1, 2, 3])):
                items += self.map_stmt()
        if any(k.startswith("create:") or k.startswith("map:") or k.startswith("arr:") for k in self.hist):
            self.count("mem:RETURN-all")
            return items + [("push", 0x1a0), ("push", 0), self.rng.choice(["RETURN", "RETURN", "REVERT"])]
        if self.rng.random() < 0.4:
            skip = self.fresh()
            items += self.cond() + [("ref", skip), "JUMPI"] + self.end() + [("label", skip)]
        if any(k.startswith("mem:M") for k in self.hist) and self.rng.random() < 0.6:
            # make the memory observable: return everything the program may have written
            self.count("mem:RETURN-all")
            return items + [("push", self.rng.choice([128, 160, 97])), ("push", 0), self.rng.choice(["RETURN", "REVERT"])]
        return items + self.end()


def impl_summary(code: bytes, nargs: int, loop: int, depth: int, oracle: str):
    """summary string of `impl_run`"""
    return impl_run(code, nargs, loop, depth, oracle)[0]


def impl_run(code: bytes, nargs: int, loop: int, depth: int, oracle: str, callees=None):
    """`oracle` is `unknown` or `sat`, optionally followed by `+static` (the frame runs with is_static set);
    `callees`: address -> code of the other accounts"""
    flags = oracle.split("+")[1:]
    oracle = oracle.split("+")[0]
    return _impl_run(code, nargs, loop, depth, oracle, "static" in flags, callees or {}, two="tx2" in flags)


def _second_tx(sr1, pre, nargs: int, static: bool):
    """what `__main__.run_message` does for a test after setUp: a fresh Path extended with that of the state `pre`,
    and `SEVM.run_message(pre, message, path)` with the message of the test (here: the same target / caller / origin /
    value as the first one, calldata = selector ‖ `nargs` symbolic words). Returns a SymRun of this second run"""
    import dataclasses

    from halmos.__main__ import mk_solver
    from halmos.bitvec import HalmosBitVec as BV
    from halmos.bytevec import ByteVec
    from halmos.exceptions import EvmException, HalmosException, Revert
    from halmos.sevm import Path
    from z3 import BitVec

    sevm = sr1.sevm
    cd = ByteVec()
    cd.append(b"\x12\x34\x56\x78")
    for i in range(nargs):
        cd.append(BV(BitVec(f"a{i}", 256), size=256))
    message = dataclasses.replace(pre.context.message, data=cd, is_static=static)
    path = Path(mk_solver(sevm.options))
    path.extend_path(pre.path)
    nb0 = len(sevm.logs.bounded_loops)
    paths, escaped = [], None
    try:
        for e in sevm.run_message(pre, message, path):
            out = e.context.output
            err = out.error
            if err is None and out.data is not None:
                kind = "success"
            elif err is None:
                kind = "stuck:NoOutput"
            elif isinstance(err, Revert):
                kind = "revert"
            elif isinstance(err, HalmosException):
                kind = "stuck:" + type(err).__name__
            elif isinstance(err, EvmException):
                kind = D.ERR_TO_HALT.get(type(err).__name__, "evm:" + type(err).__name__)
            else:
                kind = "other:" + type(err).__name__
            paths.append(D.PathRes(kind, out.data, list(e.path.conditions), e, err))
    except TimeoutError:
        raise
    except BaseException as exc:  # noqa: BLE001
        escaped = f"{type(exc).__name__}: {exc}"
    return D.SymRun(paths, list(sevm.logs.bounded_loops)[nb0:], [], escaped, sevm, False)


def _impl_run(code: bytes, nargs: int, loop: int, depth: int, oracle: str, static: bool, callees: dict, two: bool = False):
    """the real SEVM with Path.check answering `oracle` to every query; 8 s watchdog. Returns (summary, SymRun | None).
    `two`: the code first runs the message without argument words (the setUp transaction); when exactly one of its
    paths ends without error the message with `nargs` words runs from that state (`_second_tx`) and the result is
    that second run; otherwise the summary is `setup:<number of such paths>`"""
    import signal
    import sys

    import z3

    from halmos import sevm as S

    ans = {"unknown": z3.unknown, "sat": z3.sat}[oracle]
    orig_check, orig_warn, orig_hook = S.Path.check, S.warn, sys.unraisablehook
    warned = []

    def _warn(text, *a, **k):       # the --depth warning goes through halmos' de-duplicating logger: record the call itself
        warned.append(str(text))
        return orig_warn(text, *a, **k)

    def _alarm(signum, frame):
        raise TimeoutError()

    S.Path.check = lambda self, cond: ans
    S.warn = _warn
    sys.unraisablehook = lambda *a: None     # the alarm may fire inside a z3 __del__: do not print those tracebacks
    old = signal.signal(signal.SIGALRM, _alarm)
    signal.setitimer(signal.ITIMER_REAL, 8.0, 0.5)   # repeating: halmos may swallow the first TimeoutError
    sr = None
    try:
        if two:
            scn = D.Scenario({D.MAIN: code, **callees}, nargs=0, static=False)
            sr = D.symbolic_run(scn, loop=loop, depth=depth)
            if not sr.escaped:
                ok = [p for p in sr.paths if p.kind == "success"]
                if len(ok) != 1:
                    return f"setup:{len(ok)}", None
                sr = _second_tx(sr, ok[0].ex, nargs, static)
        else:
            scn = D.Scenario({D.MAIN: code, **callees}, nargs=nargs, static=static)
            sr = D.symbolic_run(scn, loop=loop, depth=depth)
    except TimeoutError:
        return "timeout", None
    finally:
        signal.setitimer(signal.ITIMER_REAL, 0)
        signal.signal(signal.SIGALRM, old)
        S.Path.check, S.warn = orig_check, orig_warn
        sys.unraisablehook = orig_hook
    if sr.escaped and "TimeoutError" in sr.escaped:
        return "timeout", None
    if sr.escaped:
        return "escaped:" + sr.escaped, None
    ends = []
    for p in sr.paths:
        k = p.kind
        if k.startswith("stuck:"):
            name = k.split(":", 1)[1]
            k = "stuck:notConcrete" if name == "NotConcreteError" else "stuck:unsupported" if "HalmosException" in name else "stuck:" + name
        ends.append(f"{k}@{p.ex.pc}")
    depthcut = int(any("--depth" in w for w in warned) or any("--depth" in w for w in sr.warnings))
    return f"ends={','.join(sorted(ends)) if ends else '-'} bounded={len(sr.bounded_loops)} depthcut={depthcut}", sr


def _kind(p):
    k = p.kind
    if k.startswith("stuck:"):
        name = k.split(":", 1)[1]
        k = "stuck:notConcrete" if name == "NotConcreteError" else "stuck:unsupported" if "HalmosException" in name else "stuck:" + name
    return k


def _storage(pe, ex):
    """the non-zero plain (scalar) slots of every account, evaluated: `<addr>.s<slot>=<value>;` / `<addr>.t<slot>=…;`
    by address, storage before transient storage, by slot (the format of the Lean driver's `eval`)"""
    addrs = {}
    for transient, store in ((False, ex.storage), (True, ex.transient_storage)):
        for addr, st in store.items():
            a = addr.as_long() if hasattr(addr, "as_long") else int(addr)
            for key, val in st._mapping.items():
                if isinstance(key, tuple) and len(key) == 3 and key[1] == 0 and key[2] == 0:
                    v = val if isinstance(val, int) else int(pe.ev(val))
                    if v:
                        addrs.setdefault(a, {})[(transient, key[0])] = v
                elif isinstance(key, tuple) and len(key) == 3 and (key[1], key[2]) in ((2, 512), (1, 256)) and not transient:
                    pass    # a mapping array (Model.SevmCalls `hsto`): observed through the loads the programs make
                else:       # another non-scalar entry: outside the core, shows up as a mismatch
                    addrs.setdefault(a, {})[(transient, -1)] = 1
    out = []
    for a in sorted(addrs):
        for (transient, slot) in sorted(addrs[a]):
            out.append(f"{a:x}.{'t' if transient else 's'}{slot:x}={addrs[a][(transient, slot)]:x};" if slot >= 0
                       else f"{a:x}.{'t' if transient else 's'}?;")
    return "".join(out)


def _logs(pe, ex):
    """the world's log as the EVM would have it: the events of the top frame and, recursively and in order, of the
    subcalls that did not fail (halmos keeps the events of failed subcalls in the trace: presentation only)"""
    from halmos.sevm import CallContext, EventLog
    out = []

    def walk(ctx):
        for t in ctx.trace:
            if isinstance(t, EventLog):
                a = t.address
                a = a.as_long() if hasattr(a, "as_long") else int(pe.word(a))
                topics = ",".join(f"{int(pe.word(x)):x}" for x in t.topics)
                data = pe.bytes_of(t.data) if t.data is not None else b""
                out.append(f"L{a:x}[{topics}]{(data or b'').hex()};")
            elif isinstance(t, CallContext) and t.output.error is None and t.output.data is not None:
                walk(t)

    walk(ex.context)
    return "".join(out)


BAL_ACCOUNTS = [0x1000, 0x2000, 0x3000, 0x4000, 5]
NEW_ACCOUNTS = [0xaaaa0002, 0xaaaa0003, 0xaaaa0004]     # the first addresses CREATE hands out


def _balances(pe, ex):
    """the non-zero balances of the scenario's accounts at the end of the path: `B<addr>=<value>;`"""
    import z3
    out = []
    for a in BAL_ACCOUNTS + NEW_ACCOUNTS:
        v = int(pe.ev(z3.Select(ex.balance, z3.BitVecVal(a, 160))))
        if v:
            out.append(f"B{a:x}={v:x};")
    return "".join(out)


def _created(pe, ex, initial):
    """the accounts the path created (those of `ex.code` not in the scenario), by address: `C<addr>=<code hex>;`"""
    out = {}
    for addr, c in ex.code.items():
        a = addr.as_long() if hasattr(addr, "as_long") else int(addr)
        if a in initial:
            continue
        code = c._code if hasattr(c, "_code") else c
        out[a] = (pe.bytes_of(code) or b"") if len(code) else b""
    return "".join(f"C{a:x}={out[a].hex()};" for a in sorted(out))


def impl_eval(sr, inputs, initial=()):
    """the end states of the real run whose path conditions `inputs` satisfies, with their data evaluated (vlib.zeval)"""
    out = []
    for p in sr.paths:
        pe = D.PathEval(inputs)
        if not pe.satisfies(p.conds):
            continue
        data = pe.bytes_of(p.data) if p.data is not None else b""
        out.append(f"{_kind(p)}@{p.ex.pc}:{(data or b'').hex()}:{_storage(pe, p.ex)}{_logs(pe, p.ex)}{_balances(pe, p.ex)}{_created(pe, p.ex, initial)}")
    return "sat=" + (",".join(sorted(out)) if out else "-")


def _inputs(rng, g, nargs):
    """a concrete input: argument values near the constants the program compares them with"""
    args = []
    for i in range(nargs):
        near = [c + d for (c, j, _op) in g.conds if j == i for d in (-1, 0, 0, 1)]
        pool = near + [0, 1, 5, 7, (1 << 255) + 3, (1 << 256) - 1, rng.getrandbits(256), rng.getrandbits(16)]
        args.append(rng.choice(pool) % (1 << 256))
    amounts = [0, 0, 1, 4, 5, 6, 999, 1000, 1001, 1 << 64, (1 << 128) - 1, 1 << 128]
    balances = {a: rng.choice(amounts) for a in BAL_ACCOUNTS if rng.random() < 0.7}
    caller = rng.getrandbits(160)
    if rng.random() < 0.3:
        balances[caller] = rng.choice(amounts)
    return D.Inputs(args=args, caller=caller, origin=rng.getrandbits(160), value=rng.choice([0, 1, rng.getrandbits(64)]),
                    balances={a: v for a, v in balances.items() if v})


def _canon(summary: str) -> str:
    """sort the end states of an `ends=… bounded=… depthcut=…` summary (the two sides sort before / after stripping tags)"""
    if not summary.startswith("ends="):
        return summary
    head, _, rest = summary.partition(" ")
    ends = head[len("ends="):]
    if ends != "-":
        ends = ",".join(sorted(ends.split(",")))
    return f"ends={ends} {rest}"


def _canon_eval(summary: str) -> str:
    if not summary.startswith("sat=") or summary == "sat=-":
        return summary
    return "sat=" + ",".join(sorted(summary[4:].split(",")))


def compare_core(ctx, n):
    """n generated programs, each under one random configuration (--loop, --depth, oracle). Returns the list of
    mismatches (dicts: code, nargs, loop, depth, oracle, impl, model); empty when model and implementation agree."""
    rng = ctx.rng
    progs, q = [], []
    for _ in range(n):
        nargs = rng.choice([1, 2, 3, 4])
        callees = {}
        try:
            if rng.random() < 0.65:
                # one or two callee contracts; 0x2000 may call 0x3000; the program under test may call both
                g3 = CoreGen(rng, 2, callee=True)
                g3.has_code = [0x1000, 0x3000]
                callees[0x3000] = asm.assemble(g3.callee_program())
                hists = [g3.hist]
                if rng.random() < 0.6:
                    g2 = CoreGen(rng, 2, callee=True, targets=[0x3000])
                    g2.has_code = [0x1000, 0x2000, 0x3000]
                    callees[0x2000] = asm.assemble(g2.callee_program())
                    hists.append(g2.hist)
                for h in hists:
                    for k, v in h.items():
                        ctx.count("core:callee:" + k, v)
            g = CoreGen(rng, nargs, targets=sorted(callees))
            g.has_code = [0x1000] + sorted(callees)
            want2 = rng.random() < 0.4
            g.tx2 = want2
            items = g.program()
            if want2 and items and items[-1] in ("REVERT", "INVALID"):
                # a two-transaction case needs a first transaction that can succeed
                items[-1] = "RETURN" if items[-1] == "REVERT" else "STOP"
            code = asm.assemble(items)
        except asm.AsmError:
            continue
        if any(k.startswith("create:") for k in g.hist) and rng.random() < 0.3:
            # the address the second CREATE attempt gets is taken: the collision rule (0 pushed, nothing else happens)
            callees[0xaaaa0003] = callees.get(0x3000, b"\x00")
            ctx.count("core:create:collision-setup")
        ctx.count("core:with-callees" if callees else "core:single-contract")
        for k, v in g.hist.items():
            ctx.count("core:" + k, v)
        loop = rng.choice([1, 2, 2, 3])
        oracle = rng.choice(["unknown", "unknown", "sat"])
        if not want2 and (("call:value" not in g.hist and any(k in g.hist for k in ("sto:SSTORE", "sto:TSTORE")) and rng.random() < 0.1) or (callees and "call:value" not in g.hist and rng.random() < 0.25)):
            oracle += "+static"
            ctx.count("core:static-frame")
        if "+static" not in oracle and want2:
            # the same code as two transactions: first without argument words ("setUp"), then the message itself from
            # the state the first one left (SEVM.run_message; Model.SevmCalls `nextTx`)
            oracle += "+tx2"
        pre = ["nocode"] + [f"code {a:x} {c.hex()}" for a, c in sorted(callees.items())]
        progs.append((code, nargs, loop, oracle, g, callees, pre))
        q += pre + [f"steps {code.hex()} {nargs} {loop} 20000 {oracle}"]
    drv = ctx.lean("Sevm")
    # --depth is placed at the exact number of worklist iterations of the run (and one below / above), where an
    # off-by-one in the cut or in the number of steps a branch takes changes the set of end states
    cases, lines = [], []
    steps_replies = [r for r in drv.ask(q) if r != "ok"]
    for (code, nargs, loop, oracle, g, callees, pre), rep in zip(progs, steps_replies):
        total = int(rep.split("=", 1)[1]) if rep.startswith("steps=") else 0
        pick = rng.random()
        if total <= 1 or pick < 0.4 or "+tx2" in oracle:      # two transactions: no --depth (it would cut either run)
            depth = 0
        elif pick < 0.85:
            depth = max(1, total + rng.choice([-1, 0, 0, 1]))
        else:
            depth = rng.randrange(1, total + 1)
        ins = [_inputs(rng, g, nargs) for _ in range(3)]
        cases.append((code, nargs, loop, depth, oracle, ins, callees))
        lines += pre
        lines.append(f"run {code.hex()} {nargs} {loop} {depth} 20000 {oracle}")
        for x in ins:
            lines.append(f"eval {code.hex()} {nargs} {loop} {depth} 20000 {oracle} {','.join(f'{a:x}' for a in x.args)} "
                         f"{x.caller:x} {x.origin:x} {x.value:x}"
                         + (" " + ",".join(f"{a:x}:{v:x}" for a, v in sorted(x.balances.items())) if x.balances else ""))
    replies = iter(r for r in drv.ask(lines) if r != "ok")
    stale = []
    for (code, nargs, loop, depth, oracle, ins, callees) in cases:
        rep = next(replies)
        evals = [next(replies) for _ in ins]
        impl, sr = impl_run(code, nargs, loop, depth, oracle, callees)
        if "+tx2" in oracle and (impl.startswith("setup:") or rep.startswith("setup:")):
            # the first transaction is not single-path (none or several paths without error): `setup()` refuses; both
            # sides must say so with the same count
            ctx.count("core:tx2:setup-not-single")
            if impl != rep:
                stale.append({"code": code.hex(), "callees": {hex(a): c.hex() for a, c in callees.items()}, "nargs": nargs, "loop": loop, "depth": depth, "oracle": oracle,
                              "impl": impl[:300], "model": rep[:300]})
            continue
        if "+tx2" in oracle:
            ctx.count("core:tx2:second-run")
        model = _canon(rep.replace("!", "").rsplit(" fuelout=", 1)[0])   # `!` = the model's tag of the jumpi-invalid-dest site
        impl = _canon(impl)
        ctx.case(("core", code, loop, depth, oracle))
        ctx.count("core:oracle-" + oracle.split("+")[0])
        ctx.count("core:depth-limited" if depth else "core:depth-unlimited")
        if " fuelout=1" in rep:
            # the model's 20000 steps did not suffice (e.g. a loop whose conditions start repeating is followed for ever
            # once the quick checks classify it): nothing to compare
            ctx.count("core:model-fuel-out" + ("+impl-timeout" if impl == "timeout" else ""))
            continue
        if impl == "timeout":
            # the model finished but the real engine did not come back within 8 s: a divergence (non-termination)
            ctx.count("core:impl-timeout-8s")
            stale.append({"code": code.hex(), "callees": {hex(a): c.hex() for a, c in callees.items()}, "nargs": nargs, "loop": loop, "depth": depth, "oracle": oracle,
                          "impl": "timeout(8s)", "model": model[:300]})
            continue
        ctx.count("core:bounded" if "bounded=0" not in impl else "core:unbounded")
        ctx.count("core:depthcut" if "depthcut=1" in impl else "core:no-depthcut")
        if impl != model:
            stale.append({"code": code.hex(), "callees": {hex(a): c.hex() for a, c in callees.items()}, "nargs": nargs, "loop": loop, "depth": depth, "oracle": oracle,
                          "impl": impl[:300], "model": model[:300]})
            continue
        # same exploration: now the data of the paths each concrete input takes
        for x, mrep in zip(ins, evals):
            try:
                irep = _canon_eval(impl_eval(sr, x, {0x1000, *callees}))
            except D.Unknown as e:      # a symbol the harness cannot evaluate: not a core program any more
                ctx.count("core:eval-unknown-symbol")
                continue
            mrep = _canon_eval(mrep.replace("!", ""))
            ctx.count("core:inputs-evaluated")
            if irep != "sat=-":
                ents = [e.split(":") for e in irep[4:].split(",")]
                ctx.count("core:inputs-with-data" if any(len(e) > 1 and e[1] for e in ents) else "core:inputs-without-data")
                if any(len(e) > 2 and e[2] for e in ents):
                    ctx.count("core:inputs-with-storage")
            if irep != mrep:
                stale.append({"code": code.hex(), "callees": {hex(a): c.hex() for a, c in callees.items()}, "nargs": nargs, "loop": loop, "depth": depth, "oracle": oracle,
                              "input": {"args": [hex(a) for a in x.args], "caller": hex(x.caller), "origin": hex(x.origin),
                                        "value": hex(x.value)},
                              "impl": irep[:300], "model": mrep[:300]})
                break
    ctx.extra["core_model_vs_impl_programs"] = len(cases)
    return stale
