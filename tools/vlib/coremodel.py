"""Correspondence between Model.Sevm (Lean) and the real SEVM on programs over the *core* instruction set, with the solver
behind Path.check replaced by a fixed answer (`unknown` or `sat` for every query — both are sound oracles). With the
oracle fixed, the exploration (which branches are followed, visit counters, loop bound, --depth cut, end states) is a
deterministic function of the program and the options, so the two sides must agree exactly on
  * the multiset of end states (outcome kind, pc at the end),
  * the number of bounded-loop flags, whether the --depth warning was raised,
  * for a few concrete inputs per program: the end states whose path the input satisfies, each with its return / revert
    data evaluated under the input (the implementation's terms by vlib.zeval, the model's by the Lean driver).

What the generator deliberately avoids, because there the model is an approximation or z3's simplifier is stronger than
the driver's (Driver/Sevm.lean: constant folding + double-negation elimination):
  * symbolic values in the positions `int_of` concretises through `substitute(x, substitution)` (JUMPI/JUMP targets,
    CALLDATALOAD offsets, RETURN/REVERT offset and size, SIGNEXTEND size are literals) — the model says *stuck* there;
  * two *different but equivalent* conditions on one path (each loop counts on its own calldata argument, every `if`
    compares with a fresh random constant), so that the structural quick checks of Exec.check (`cond in path`,
    `simplify(Not(cond)) in path`) hit on both sides or on neither. Identical conditions (same code run twice) are fine.
It deliberately *includes* `arg == const` branches followed by further reads of the same argument: the code's
Path.concretization.substitution then makes those reads concrete, and so does the model (SState.subst).
"""
from __future__ import annotations

import logging

from . import asm
from . import evmdiff as D

MEMOFF = [0, 0, 32, 32, 64, 1, 31, 33, 96]     # mostly word-aligned; a few overlapping / unaligned accesses
CONST = [0, 1, 2, 3, 5, 7, 42, 255, 256, (1 << 255), (1 << 256) - 1]
BIN = ["ADD", "MUL", "SUB", "DIV", "SDIV", "MOD", "SMOD", "LT", "GT", "SLT", "SGT", "EQ", "AND", "OR", "XOR", "BYTE",
       "SHL", "SHR", "SAR", "EXP", "SIGNEXTEND"]


class CoreGen:
    """programs over the core set (see the module docstring for what is avoided and why)"""

    def __init__(self, rng, nargs):
        self.rng, self.nargs, self.n = rng, nargs, 0
        self.hist = {}
        self.loop_args = list(range(nargs))     # arguments not yet used as a loop trip count
        rng.shuffle(self.loop_args)
        self.consts = set()
        self.conds = []

    def count(self, k):
        self.hist[k] = self.hist.get(k, 0) + 1

    def fresh(self):
        self.n += 1
        return f"L{self.n}"

    def fresh_const(self):
        while True:
            c = self.rng.randrange(2, 1 << 16)
            if c not in self.consts:
                self.consts.add(c)
                return c

    def arg(self, i=None):
        i = self.rng.randrange(self.nargs) if i is None else i
        return [("push", 4 + 32 * i), "CALLDATALOAD"]

    def expr(self, d):
        r = self.rng
        if d == 0 or r.random() < 0.35:
            k = r.random()
            if k < 0.45:
                return self.arg()
            if k < 0.55:
                self.count("mem:MLOAD")
                # reads do not allocate: the `MAX_MEMORY_SIZE` boundary of `mloc(check_size=True)` is probed here
                off = r.choice(MEMOFF) if r.random() < 0.93 else r.choice([1 << 20, 1 << 20, (1 << 20) + 1])
                return [("push", off), "MLOAD"]
            if k < 0.85:
                return [("push", r.choice(CONST))]
            return [r.choice(["CALLER", "CALLVALUE", "ORIGIN", "ADDRESS", "CALLDATASIZE", "PC"])]
        k = r.random()
        if k < 0.15:
            return self.expr(d - 1) + [r.choice(["ISZERO", "NOT"])]
        if k < 0.22:
            return self.expr(d - 1) + self.expr(d - 1) + self.expr(d - 1) + [r.choice(["ADDMOD", "MULMOD"])]
        op = r.choice(BIN)
        a, b = self.expr(d - 1), self.expr(d - 1)
        if op in ("EXP", "SIGNEXTEND", "BYTE", "SHL", "SHR", "SAR"):
            a = [("push", r.choice([0, 1, 2, 3, 31, 32, 255, 256]))]   # top operand concrete (size / shift / exponent)
        self.count("op:" + op)
        return b + a + [op]

    def cond(self):
        r = self.rng
        self.count("cond")
        if self.conds and r.random() < 0.25:
            # the very same condition again: decided by the quick checks of Exec.check (`cond in path`,
            # `simplify(Not(cond)) in path`) on whichever branch we are, or by the concretization after `arg == const`
            c, i, op = r.choice(self.conds)
            self.count("cond:repeated")
        else:
            c, i, op = self.fresh_const(), r.randrange(self.nargs), r.choice(["EQ", "EQ", "LT", "GT", "SLT", "SGT"])
            self.conds.append((c, i, op))
        self.count("cond:" + op)
        return [("push", c)] + self.arg(i) + [op]

    def stmt(self, d):
        r = self.rng
        k = r.choice(["pop", "mstore", "mstore", "mstore8", "copy", "if", "if", "loop", "dupswap"] if d > 0
                     else ["pop", "mstore", "copy", "dupswap"])
        self.count("stmt:" + k)
        if k == "copy":
            op = r.choice(["CALLDATACOPY", "CODECOPY"])
            self.count("mem:" + op)
            size = r.choice([0, 1, 4, 32, 36, 64]) if r.random() < 0.95 else r.choice([(1 << 20) + 1, 1 << 30])
            return [("push", size), ("push", r.choice([0, 0, 3, 4, 36, 100, 1 << 30])), ("push", r.choice(MEMOFF)), op]
        if k == "mstore":
            self.count("mem:MSTORE")
            off = r.choice(MEMOFF) if r.random() < 0.97 else r.choice([(1 << 20) + 1, 1 << 30])   # never a valid huge write: the model's memory is a list
            return self.expr(2) + [("push", off), "MSTORE"]
        if k == "mstore8":
            self.count("mem:MSTORE8")
            return self.expr(1) + [("push", r.choice(MEMOFF)), "MSTORE8"]
        if k == "pop":
            return self.expr(2) + ["POP"]
        if k == "dupswap":
            op = r.choice(["SWAP1", "DUP2", "DUP1"])
            return self.expr(1) + self.expr(1) + [op, "POP", "POP"] + (["POP"] if op != "SWAP1" else [])   # stack-neutral
        if k == "if":
            els, end = self.fresh(), self.fresh()
            return (self.cond() + [("ref", els), "JUMPI"] + self.block(d - 1) + [("ref", end), "JUMP", ("label", els)]
                    + self.block(d - 1) + [("label", end)])
        # loop: the counter lives on the stack; a symbolic trip count uses an argument no other loop counts on
        top, end = self.fresh(), self.fresh()
        symbolic = bool(self.loop_args) and r.random() < 0.6
        if symbolic:
            n = self.arg(self.loop_args.pop()) + [("push", 7), "AND"]
            self.count("loop:symbolic")
        else:
            n = [("push", r.randrange(0, 4))]
            self.count("loop:concrete")
        if r.random() < 0.4:
            # do-while: the *taken* branch of the JUMPI continues the loop (exercises the `True` visit counter and a
            # bit-vector, not Bool, condition). The count is at least 1 — `(arg & 7) + 1` or a literal 1..3 — so that the
            # counter cannot wrap around within the at most 4 iterations `--loop <= 3` allows (after a wrap z3 proves the
            # condition true and the real engine, rightly, loops 2^256 times).
            self.count("loop:do-while")
            n = (n + [("push", 1), "ADD"]) if symbolic else [("push", r.randrange(1, 4))]
            return (n + [("label", top)] + self.block(0)
                    + [("push", 1), "SWAP1", "SUB", "DUP1", ("ref", top), "JUMPI", "POP"])
        return (n + [("label", top), "DUP1", "ISZERO", ("ref", end), "JUMPI"] + self.block(0)
                + [("push", 1), "SWAP1", "SUB", ("ref", top), "JUMP", ("label", end), "POP"])

    def block(self, d):
        out = []
        for _ in range(self.rng.randrange(0, 3)):
            out += self.stmt(d)
        return out

    def end(self):
        r = self.rng
        k = r.random()
        if k < 0.4:
            return ["STOP"]
        if k < 0.55:
            return ["INVALID"]
        if k < 0.7:
            if r.random() < 0.93:
                size = r.choice([0, 1, 32, 33, 64, 64, 100])
                off = r.choice([0, 0, 5, 32, 1 << 30] if not size else [0, 0, 5, 32])
            else:   # around MAX_MEMORY_SIZE: the last readable word, one byte too far, far too large (never a huge *valid* range)
                off, size = r.choice([((1 << 20) - 32, 32), ((1 << 20) - 31, 32), (0, (1 << 20) + 1), (0, 1 << 30)])
            self.count("mem:RETURN-data" if size else "mem:RETURN-empty")
            return [("push", size), ("push", off), r.choice(["RETURN", "REVERT"])]
        if k < 0.8:
            return [("push", r.choice([0, 1, 2, 0xFFFF])), "JUMP"]
        if k < 0.9:
            return ["POP", "POP"]
        return self.cond() + [("push", r.choice([0, 1, 3])), "JUMPI", "STOP"]   # symbolic JUMPI to an invalid destination

    def program(self):
        items = []
        for _ in range(self.rng.randrange(1, 5)):
            items += self.stmt(2)
        if self.rng.random() < 0.4:
            skip = self.fresh()
            items += self.cond() + [("ref", skip), "JUMPI"] + self.end() + [("label", skip)]
        if any(k.startswith("mem:M") for k in self.hist) and self.rng.random() < 0.6:
            # make the memory observable: return everything the program may have written
            self.count("mem:RETURN-all")
            return items + [("push", self.rng.choice([128, 160, 97])), ("push", 0), self.rng.choice(["RETURN", "REVERT"])]
        return items + self.end()


def impl_summary(code: bytes, nargs: int, loop: int, depth: int, oracle: str):
    """summary string of `impl_run`"""
    return impl_run(code, nargs, loop, depth, oracle)[0]


def impl_run(code: bytes, nargs: int, loop: int, depth: int, oracle: str):
    """the real SEVM with Path.check answering `oracle` to every query; 8 s watchdog. Returns (summary, SymRun | None)"""
    import signal
    import sys

    import z3

    from halmos import sevm as S

    ans = {"unknown": z3.unknown, "sat": z3.sat}[oracle]
    orig_check, orig_warn, orig_hook = S.Path.check, S.warn, sys.unraisablehook
    warned = []

    def _warn(text, *a, **k):       # the --depth warning goes through halmos' de-duplicating logger: record the call itself
        warned.append(str(text))
        return orig_warn(text, *a, **k)

    def _alarm(signum, frame):
        raise TimeoutError()

    S.Path.check = lambda self, cond: ans
    S.warn = _warn
    sys.unraisablehook = lambda *a: None     # the alarm may fire inside a z3 __del__: do not print those tracebacks
    old = signal.signal(signal.SIGALRM, _alarm)
    signal.setitimer(signal.ITIMER_REAL, 8.0, 0.5)   # repeating: halmos may swallow the first TimeoutError
    sr = None
    try:
        scn = D.Scenario({D.MAIN: code}, nargs=nargs)
        sr = D.symbolic_run(scn, loop=loop, depth=depth)
    except TimeoutError:
        return "timeout", None
    finally:
        signal.setitimer(signal.ITIMER_REAL, 0)
        signal.signal(signal.SIGALRM, old)
        S.Path.check, S.warn = orig_check, orig_warn
        sys.unraisablehook = orig_hook
    if sr.escaped and "TimeoutError" in sr.escaped:
        return "timeout", None
    if sr.escaped:
        return "escaped:" + sr.escaped, None
    ends = []
    for p in sr.paths:
        k = p.kind
        if k.startswith("stuck:"):
            name = k.split(":", 1)[1]
            k = "stuck:notConcrete" if name == "NotConcreteError" else "stuck:unsupported" if "HalmosException" in name else "stuck:" + name
        ends.append(f"{k}@{p.ex.pc}")
    depthcut = int(any("--depth" in w for w in warned) or any("--depth" in w for w in sr.warnings))
    return f"ends={','.join(sorted(ends)) if ends else '-'} bounded={len(sr.bounded_loops)} depthcut={depthcut}", sr


def _kind(p):
    k = p.kind
    if k.startswith("stuck:"):
        name = k.split(":", 1)[1]
        k = "stuck:notConcrete" if name == "NotConcreteError" else "stuck:unsupported" if "HalmosException" in name else "stuck:" + name
    return k


def impl_eval(sr, inputs):
    """the end states of the real run whose path conditions `inputs` satisfies, with their data evaluated (vlib.zeval)"""
    out = []
    for p in sr.paths:
        pe = D.PathEval(inputs)
        if not pe.satisfies(p.conds):
            continue
        data = pe.bytes_of(p.data) if p.data is not None else b""
        out.append(f"{_kind(p)}@{p.ex.pc}:{(data or b'').hex()}")
    return "sat=" + (",".join(sorted(out)) if out else "-")


def _inputs(rng, g, nargs):
    """a concrete input: argument values near the constants the program compares them with"""
    args = []
    for i in range(nargs):
        near = [c + d for (c, j, _op) in g.conds if j == i for d in (-1, 0, 0, 1)]
        pool = near + [0, 1, 5, 7, (1 << 255) + 3, (1 << 256) - 1, rng.getrandbits(256), rng.getrandbits(16)]
        args.append(rng.choice(pool) % (1 << 256))
    return D.Inputs(args=args, caller=rng.getrandbits(160), origin=rng.getrandbits(160), value=rng.choice([0, 1, rng.getrandbits(64)]),
                    balances={})


def _canon(summary: str) -> str:
    """sort the end states of an `ends=… bounded=… depthcut=…` summary (the two sides sort before / after stripping tags)"""
    if not summary.startswith("ends="):
        return summary
    head, _, rest = summary.partition(" ")
    ends = head[len("ends="):]
    if ends != "-":
        ends = ",".join(sorted(ends.split(",")))
    return f"ends={ends} {rest}"


def _canon_eval(summary: str) -> str:
    if not summary.startswith("sat=") or summary == "sat=-":
        return summary
    return "sat=" + ",".join(sorted(summary[4:].split(",")))


def compare_core(ctx, n):
    """n generated programs, each under one random configuration (--loop, --depth, oracle). Returns the list of
    mismatches (dicts: code, nargs, loop, depth, oracle, impl, model); empty when model and implementation agree."""
    rng = ctx.rng
    progs, q = [], []
    for _ in range(n):
        nargs = rng.choice([1, 2, 3, 4])
        g = CoreGen(rng, nargs)
        try:
            code = asm.assemble(g.program())
        except asm.AsmError:
            continue
        for k, v in g.hist.items():
            ctx.count("core:" + k, v)
        loop = rng.choice([1, 2, 2, 3])
        oracle = rng.choice(["unknown", "unknown", "sat"])
        progs.append((code, nargs, loop, oracle, g))
        q.append(f"steps {code.hex()} {nargs} {loop} 20000 {oracle}")
    drv = ctx.lean("Sevm")
    # --depth is placed at the exact number of worklist iterations of the run (and one below / above), where an
    # off-by-one in the cut or in the number of steps a branch takes changes the set of end states
    cases, lines = [], []
    for (code, nargs, loop, oracle, g), rep in zip(progs, drv.ask(q)):
        total = int(rep.split("=", 1)[1]) if rep.startswith("steps=") else 0
        pick = rng.random()
        if total <= 1 or pick < 0.4:
            depth = 0
        elif pick < 0.85:
            depth = max(1, total + rng.choice([-1, 0, 0, 1]))
        else:
            depth = rng.randrange(1, total + 1)
        ins = [_inputs(rng, g, nargs) for _ in range(3)]
        cases.append((code, nargs, loop, depth, oracle, ins))
        lines.append(f"run {code.hex()} {nargs} {loop} {depth} 20000 {oracle}")
        for x in ins:
            lines.append(f"eval {code.hex()} {nargs} {loop} {depth} 20000 {oracle} {','.join(f'{a:x}' for a in x.args)} "
                         f"{x.caller:x} {x.origin:x} {x.value:x}")
    replies = iter(drv.ask(lines))
    stale = []
    for (code, nargs, loop, depth, oracle, ins) in cases:
        rep = next(replies)
        evals = [next(replies) for _ in ins]
        impl, sr = impl_run(code, nargs, loop, depth, oracle)
        model = _canon(rep.replace("!", "").rsplit(" fuelout=", 1)[0])   # `!` = the model's tag of the jumpi-invalid-dest site
        impl = _canon(impl)
        ctx.case(("core", code, loop, depth, oracle))
        ctx.count("core:oracle-" + oracle)
        ctx.count("core:depth-limited" if depth else "core:depth-unlimited")
        if " fuelout=1" in rep:
            # the model's 20000 steps did not suffice (e.g. a loop whose conditions start repeating is followed for ever
            # once the quick checks classify it): nothing to compare
            ctx.count("core:model-fuel-out" + ("+impl-timeout" if impl == "timeout" else ""))
            continue
        if impl == "timeout":
            # the model finished but the real engine did not come back within 8 s: a divergence (non-termination)
            ctx.count("core:impl-timeout-8s")
            stale.append({"code": code.hex(), "nargs": nargs, "loop": loop, "depth": depth, "oracle": oracle,
                          "impl": "timeout(8s)", "model": model[:300]})
            continue
        ctx.count("core:bounded" if "bounded=0" not in impl else "core:unbounded")
        ctx.count("core:depthcut" if "depthcut=1" in impl else "core:no-depthcut")
        if impl != model:
            stale.append({"code": code.hex(), "nargs": nargs, "loop": loop, "depth": depth, "oracle": oracle,
                          "impl": impl[:300], "model": model[:300]})
            continue
        # same exploration: now the data of the paths each concrete input takes
        for x, mrep in zip(ins, evals):
            try:
                irep = _canon_eval(impl_eval(sr, x))
            except D.Unknown as e:      # a symbol the harness cannot evaluate: not a core program any more
                ctx.count("core:eval-unknown-symbol")
                continue
            mrep = _canon_eval(mrep.replace("!", ""))
            ctx.count("core:inputs-evaluated")
            if irep != "sat=-":
                ctx.count("core:inputs-with-data" if any(e.split(":", 1)[1] for e in irep[4:].split(",")) else "core:inputs-without-data")
            if irep != mrep:
                stale.append({"code": code.hex(), "nargs": nargs, "loop": loop, "depth": depth, "oracle": oracle,
                              "input": {"args": [hex(a) for a in x.args], "caller": hex(x.caller), "origin": hex(x.origin),
                                        "value": hex(x.value)},
                              "impl": irep[:300], "model": mrep[:300]})
                break
    ctx.extra["core_model_vs_impl_programs"] = len(cases)
    return stale
