"""End-to-end support shared by C03 / C15 / C20: small test contracts for `run_contract_offline` + their ground truth on
the reference EVM (Lean `Driver/E2e.lean`: Spec.Evm with snapshots and committing calls).

  * a reference *cheatcode stub* (`hevm_stub()`): EVM bytecode installed at the HEVM address of the reference world which
    gives vm.assume / vm.assert* / the legacy fail-flag store / vm.warp / vm.roll their documented meaning in terms the
    plain EVM can express (revert on a false assumption; `failed` slot := 1 on a failed assertion; warp/roll recorded in two
    slots that the driver copies into the block parameters of the *next* transaction, `syncparam`);
  * a concrete ABI encoder (static parameters + one level of `bytes` / `uint256[]`), standard and halmos' *generalised* layout;
  * expression / guard DSL that compiles to `asm` items and evaluates in Python (to construct witnesses only: the verdict
    about a witness always comes from the reference EVM);
  * the C03 grammar `gen_contract(rng, …)` of `setUp()` + `check_*` functions whose bodies are guarded assertion failures;
  * `RefBatch`: one Lean process for many worlds / calls.

No halmos import here (vlib.artifacts does that); the module is usable from plain python for self-tests.
"""
from __future__ import annotations

import itertools
import re
from dataclasses import dataclass, field

from . import asm
from .artifacts import Fn, TestContract, build

W = 1 << 256
M160 = (1 << 160) - 1
FOUNDRY_TEST = 0x7FA9385BE102AC3EAC297483DD6233D62B3E1496
FOUNDRY_CALLER = 0x1804C8AB1F12E6BBF3894D4083F33E07309D1F38
HEVM = asm.HEVM_ADDRESS
TEST_BALANCE = 0xFFFFFFFFFFFFFFFFFFFFFFFF
FAILED_SLOT = int.from_bytes(b"failed".ljust(32, b"\0"), "big")
WARP_FLAG, WARP_VAL, ROLL_FLAG, ROLL_VAL = 0xF001, 0xF002, 0xF003, 0xF004
FUEL = 200000
TOUCH_SLOT = 7
FIRST_CREATED = 0xAAAA0002  # halmos: magic_address + new_address_offset + 1; reference: allocbase + 1

SEL = {
    "assume": asm.selector("assume(bool)"),
    "assertTrue": asm.selector("assertTrue(bool)"),
    "assertFalse": asm.selector("assertFalse(bool)"),
    "assertEq": asm.selector("assertEq(uint256,uint256)"),
    "store": asm.selector("store(address,bytes32,bytes32)"),
    "warp": asm.selector("warp(uint256)"),
    "roll": asm.selector("roll(uint256)"),
    "prank": asm.selector("prank(address)"),
}


def hx(n: int) -> str:
    return f"{n:x}"


def hb(b: bytes) -> str:
    return b.hex() if b else "-"


# ------------------------------------------------------------------------------------------------ reference cheatcodes


def hevm_stub() -> bytes:
    """Reference meaning of the cheatcodes the generated contracts use, as plain EVM code living at HEVM_ADDRESS."""
    a0, a1, a2 = asm.calldata_arg(0), asm.calldata_arg(1), asm.calldata_arg(2)
    fail = [1, ("push", FAILED_SLOT, 32), "SSTORE", "STOP"]
    table = {
        SEL["assume"]: "c_assume", SEL["assertTrue"]: "c_true", SEL["assertFalse"]: "c_false", SEL["assertEq"]: "c_eq",
        SEL["store"]: "c_store", SEL["warp"]: "c_warp", SEL["roll"]: "c_roll",
    }
    items = asm.dispatcher(table, fallback=["INVALID"])
    items += asm.function_body("c_assume", a0 + ["ISZERO", ("ref", "rv"), "JUMPI", "STOP", ("label", "rv")] + asm.revert_empty())
    items += asm.function_body("c_true", a0 + ["ISZERO", ("ref", "f1"), "JUMPI", "STOP", ("label", "f1")] + fail)
    items += asm.function_body("c_false", a0 + [("ref", "f2"), "JUMPI", "STOP", ("label", "f2")] + fail)
    items += asm.function_body("c_eq", a0 + a1 + ["EQ", "ISZERO", ("ref", "f3"), "JUMPI", "STOP", ("label", "f3")] + fail)
    # store(address,bytes32,bytes32): only stores into the stub itself are expressible (the fail flag); others: INVALID
    items += asm.function_body("c_store", a0 + ["ADDRESS", "EQ", ("ref", "s1"), "JUMPI", "INVALID", ("label", "s1")]
                               + a2 + a1 + ["SSTORE", "STOP"])
    items += asm.function_body("c_warp", [1, WARP_FLAG, "SSTORE"] + a0 + [WARP_VAL, "SSTORE", "STOP"])
    items += asm.function_body("c_roll", [1, ROLL_FLAG, "SSTORE"] + a0 + [ROLL_VAL, "SSTORE", "STOP"])
    return asm.assemble(items)


def vm_call(name: str, args: list, pop=True) -> list:
    return asm.cheat_call(HEVM, SEL[name], args, pop=pop)


def assume_or_stop(cond: list) -> list:
    """vm.assume(cond); on the reference EVM the stub reverts on a false assumption and the test stops cleanly
    (halmos drops the path inside the cheatcode)."""
    ok = asm.fresh("assumed")
    return vm_call("assume", [cond], pop=False) + [("ref", ok), "JUMPI", "STOP", ("label", ok)]


# ------------------------------------------------------------------------------------------------ ABI encoding


@dataclass(frozen=True)
class Param:
    typ: str  # uint256 | address | bool | int256 | bytes | uint256[]
    name: str

    @property
    def dynamic(self):
        return self.typ in ("bytes", "uint256[]")


def _pad32(b: bytes) -> bytes:
    return b + b"\0" * (-len(b) % 32)


def abi_encode(params, values, max_sizes=None) -> bytes:
    """Standard ABI encoding of the argument tuple; with `max_sizes` ({name: n}) halmos' generalised layout: every dynamic
    parameter occupies the space of its largest size candidate (content beyond the length is taken from the value given:
    bytes values longer than the length / arrays longer than the length carry the slack)."""
    head, tail = [], b""
    hsize = 32 * len(params)
    for p, v in zip(params, values):
        if not p.dynamic:
            head.append((int(v) % W).to_bytes(32, "big"))
            continue
        head.append((hsize + len(tail)).to_bytes(32, "big"))
        if p.typ == "bytes":
            if isinstance(v, tuple):  # (length, content possibly longer than length)
                n, content = v
            else:
                n, content = len(v), bytes(v)
            if max_sizes is not None:
                full = ((max_sizes[p.name] + 31) // 32) * 32
                content = content[:full].ljust(full, b"\0")
            else:
                content = _pad32(content[:n])
            tail += n.to_bytes(32, "big") + content
        else:
            if isinstance(v, tuple):
                n, elems = v
            else:
                n, elems = len(v), list(v)
            if max_sizes is not None:
                elems = (list(elems) + [0] * max_sizes[p.name])[:max_sizes[p.name]]
            else:
                elems = list(elems)[:n]
            tail += n.to_bytes(32, "big") + b"".join((int(e) % W).to_bytes(32, "big") for e in elems)
    return b"".join(head) + tail


def calldata(sig_canon: str, params, values, max_sizes=None) -> bytes:
    return asm.selector(sig_canon).to_bytes(4, "big") + abi_encode(params, values, max_sizes)


def canon_sig(name, params) -> str:
    return f"{name}({','.join(p.typ for p in params)})"


def named_sig(name, params) -> str:
    return f"{name}({', '.join(p.typ + ' ' + p.name for p in params)})"


# ------------------------------------------------------------------------------------------------ expressions


def _s(v):
    v %= W
    return v - W if v >> 255 else v


class E:
    """expression: compile() -> asm items leaving one word; ev(env) -> int. env = {'args': [...], 'storage': {slot: v}}"""

    def compile(self):
        raise NotImplementedError

    def ev(self, env):
        raise NotImplementedError

    def consts(self):
        return set()


@dataclass
class Const(E):
    v: int

    def compile(self):
        return [("push", self.v % W)]

    def ev(self, env):
        return self.v % W

    def consts(self):
        return {self.v % W}

    def __str__(self):
        return hex(self.v % W) if self.v % W > 9 else str(self.v % W)


@dataclass
class Arg(E):
    i: int  # head slot of a static parameter

    def compile(self):
        return asm.calldata_arg(self.i)

    def ev(self, env):
        return int(env["args"][self.i]) % W

    def __str__(self):
        return f"a{self.i}"


@dataclass
class SLoad(E):
    slot: int

    def compile(self):
        return [("push", self.slot), "SLOAD"]

    def ev(self, env):
        return env["storage"].get(self.slot, 0)

    def __str__(self):
        return f"s[{self.slot}]"


_BIN = {
    "ADD": lambda a, b: (a + b) % W, "SUB": lambda a, b: (a - b) % W, "MUL": lambda a, b: (a * b) % W,
    "DIV": lambda a, b: a // b if b else 0, "MOD": lambda a, b: a % b if b else 0,
    "LT": lambda a, b: int(a < b), "GT": lambda a, b: int(a > b), "EQ": lambda a, b: int(a == b),
    "SLT": lambda a, b: int(_s(a) < _s(b)), "SGT": lambda a, b: int(_s(a) > _s(b)),
    "AND": lambda a, b: a & b, "OR": lambda a, b: a | b, "XOR": lambda a, b: a ^ b,
    "SHR": lambda a, b: (b >> a) if a < 256 else 0,  # note: SHR(shift=a, value=b)
    "SHL": lambda a, b: (b << a) % W if a < 256 else 0,
    "SAR": lambda a, b: (_s(b) >> min(a, 255)) % W,
    "SDIV": lambda a, b: 0 if b == 0 else ((abs(_s(a)) // abs(_s(b))) * (1 if (_s(a) < 0) == (_s(b) < 0) else -1)) % W,
    "SMOD": lambda a, b: 0 if b == 0 else ((abs(_s(a)) % abs(_s(b))) * (-1 if _s(a) < 0 else 1)) % W,
    "BYTE": lambda a, b: (b >> (8 * (31 - a))) & 0xFF if a < 32 else 0,
    "EXP": lambda a, b: pow(a, b, W),
    "SIGNEXTEND": lambda a, b: b if a >= 31 else ((b & ((1 << (8 * a + 8)) - 1)) | ((W - (1 << (8 * a + 8))) if (b >> (8 * a + 7)) & 1 else 0)),
}
DIRTY = [0x1234, 0xFF7F, 0x80, 0x7F, 0xFF, 0x8000, 0x7FFF, 0x12345678, W - 1, W - 2, 1 << 255, (1 << 255) - 1, (1 << 255) + 0x34,
         0xFFFFFFFFFFFFFF34, 0x100, 0xABCD00, 0]


@dataclass
class Bin(E):
    op: str
    a: E  # first operand (top of stack)
    b: E

    def compile(self):
        return self.b.compile() + self.a.compile() + [self.op]

    def ev(self, env):
        return _BIN[self.op](self.a.ev(env), self.b.ev(env))

    def consts(self):
        return self.a.consts() | self.b.consts()

    def __str__(self):
        return f"{self.op}({self.a},{self.b})"


@dataclass
class Not(E):
    a: E

    def compile(self):
        return self.a.compile() + ["ISZERO"]

    def ev(self, env):
        return int(self.a.ev(env) == 0)

    def consts(self):
        return self.a.consts()

    def __str__(self):
        return f"!{self.a}"


@dataclass
class DynLen(E):
    i: int  # head slot of a dynamic parameter

    def compile(self):
        return asm.calldata_arg(self.i) + [4, "ADD", "CALLDATALOAD"]

    def ev(self, env):
        return len(env["args"][self.i])

    def __str__(self):
        return f"len(a{self.i})"


@dataclass
class DynWord(E):
    i: int
    k: int  # k-th 32-byte word of the content (bytes) / k-th element (uint256[])

    def compile(self):
        return asm.calldata_arg(self.i) + [4 + 32 + 32 * self.k, "ADD", "CALLDATALOAD"]

    def ev(self, env):
        v = env["args"][self.i]
        if isinstance(v, (bytes, bytearray)):
            return int.from_bytes(bytes(v[32 * self.k:32 * self.k + 32]).ljust(32, b"\0"), "big")
        return int(v[self.k]) % W if self.k < len(v) else 0

    def __str__(self):
        return f"a{self.i}[{self.k}]"


@dataclass
class KeccakWords(E):
    es: list

    def compile(self):
        items = []
        for j, e in enumerate(self.es):
            items += e.compile() + [("push", 32 * j), "MSTORE"]
        return items + [("push", 32 * len(self.es)), ("push", 0), "SHA3"]

    def ev(self, env):
        return int.from_bytes(asm.keccak256(b"".join(e.ev(env).to_bytes(32, "big") for e in self.es)), "big")

    def consts(self):
        return set().union(*[e.consts() for e in self.es]) if self.es else set()

    def __str__(self):
        return "keccak(" + ",".join(map(str, self.es)) + ")"


@dataclass
class KeccakDyn(E):
    i: int  # keccak256 of the content of a bytes parameter / of the elements of a uint256[] (abi.encodePacked)
    elem_words: bool = False

    def compile(self):
        ln = DynLen(self.i).compile() + ([32, "MUL"] if self.elem_words else [])
        # CALLDATACOPY(dest=0, src=4+off+32, len) ; SHA3(0, len)
        return ln + ["DUP1"] + asm.calldata_arg(self.i) + [4 + 32, "ADD", ("push", 0), "CALLDATACOPY", ("push", 0), "SHA3"]

    def ev(self, env):
        v = env["args"][self.i]
        data = bytes(v) if isinstance(v, (bytes, bytearray)) else b"".join((int(e) % W).to_bytes(32, "big") for e in v)
        return int.from_bytes(asm.keccak256(data), "big")

    def __str__(self):
        return f"keccak(a{self.i}[..])"


def conj(atoms) -> E:
    e = atoms[0]
    for a in atoms[1:]:
        e = Bin("AND", e, a)
    return e


# ------------------------------------------------------------------------------------------------ C03 grammar


@dataclass
class Check:
    name: str
    params: list            # [Param]
    atoms: list             # [E] the guard is their conjunction
    kind: str               # panic | flag | assertTrue | assertFalse | assertEq
    panic_code: int = 1
    reachable: bool = True  # as constructed (the generator's claim, confirmed on the reference EVM for `True`)
    witness: list | None = None
    assume: E | None = None  # vm.assume(assume) first
    style: str = "and"      # and | nested  (one JUMPI on the conjunction / short-circuit chain)
    why: str = ""           # which contradiction makes it unreachable / which atoms make it reachable
    expect_fail: bool = True  # False for decoys: reachable Panic with a code that is not configured
    prologue: list = field(default_factory=list)  # asm run first (e.g. a storage write another test's guard would observe)
    devdoc: str | None = None  # per-function `/// @custom:halmos …` (e.g. "--loop 3")

    @property
    def canon(self):
        return canon_sig(self.name, self.params)

    @property
    def named(self):
        return named_sig(self.name, self.params)

    def body(self) -> list:
        pre = list(self.prologue) + (assume_or_stop(self.assume.compile()) if self.assume is not None else [])
        g = conj(self.atoms)
        if self.kind == "assertTrue":
            return pre + vm_call("assertTrue", [Not(g).compile()]) + ["STOP"]
        if self.kind == "assertFalse":
            return pre + vm_call("assertFalse", [g.compile()]) + ["STOP"]
        if self.kind == "assertEq":
            return pre + vm_call("assertEq", [g.compile(), [("push", 0)]]) + ["STOP"]
        bad = asm.panic(self.panic_code) if self.kind == "panic" else (asm.set_fail_flag() + ["STOP"])
        if self.style == "nested" and len(self.atoms) > 1:
            out = asm.fresh("out")
            items = []
            for a in self.atoms:
                items += a.compile() + ["ISZERO", ("ref", out), "JUMPI"]
            return pre + items + bad + [("label", out), "STOP"]
        return pre + asm.if_then(g.compile(), bad) + ["STOP"]

    def env(self, values, storage):
        return {"args": list(values), "storage": storage}

    def guard_holds(self, values, storage) -> bool:
        env = self.env(values, storage)
        if self.assume is not None and not self.assume.ev(env):
            return False
        return all(a.ev(env) for a in self.atoms)


@dataclass
class LoopCheck(Check):
    """a counted loop with a symbolic trip count n = arg0 & mask; the failure is reachable only after exactly `k` iterations.
    shape `while`:   i = 0; while (n != 0) { i++; n-- }         (back edge = unconditional JUMP, exit = taken JUMPI)
    shape `dowhile`: i = 0; do { i++ } while (i < n)            (back edge = the *taken* side of the JUMPI, exit = fall-through)
    The counter lives in memory word 0x20. `atoms` describe the failing inputs for the sweep / messages only."""
    shape: str = "while"
    k: int = 1
    mask: int = 7
    loop_bound: int = 2

    def body(self) -> list:
        cnt = [("push", 0x20), "MLOAD"]
        if self.shape == "while":
            top, end = asm.fresh("top"), asm.fresh("end")
            loop = asm.calldata_arg(0) + [("push", self.mask), "AND", ("label", top), "DUP1", "ISZERO", ("ref", end), "JUMPI",
                                          ("push", 1)] + cnt + ["ADD", ("push", 0x20), "MSTORE",
                                          ("push", 1), "SWAP1", "SUB", ("ref", top), "JUMP", ("label", end), "POP"]
        else:
            top = asm.fresh("dtop")
            loop = [("label", top), ("push", 1)] + cnt + ["ADD", "DUP1", ("push", 0x20), "MSTORE"] + \
                asm.calldata_arg(0) + [("push", self.mask), "AND", "GT", ("ref", top), "JUMPI"]
        g = asm.eq_const(cnt, self.k)
        for a in self.atoms[1:]:
            g = g + a.compile() + ["AND"]
        if self.kind == "assertTrue":
            return list(self.prologue) + loop + vm_call("assertTrue", [g + ["ISZERO"]]) + ["STOP"]
        bad = asm.panic(self.panic_code) if self.kind == "panic" else (asm.set_fail_flag() + ["STOP"])
        return list(self.prologue) + loop + asm.if_then(g, bad) + ["STOP"]


def gen_loop_check(rng, idx, g: "Grammar") -> LoopCheck:
    shape = rng.choice(["while", "dowhile", "dowhile"])
    k = rng.choice([1, 2, 3, 5])
    bound = rng.choice([1, 2, 3, 6])
    mask = 7
    params = [Param("uint256", "n")]
    wit = [k + rng.choice([0, 8, 1 << 200, (W - 1) & ~mask])]
    atoms = [Bin("EQ", Bin("AND", Arg(0), Const(mask)), Const(k))]
    if rng.random() < 0.4:
        params.append(Param("uint256", "y"))
        w = g.word()
        wit.append(w)
        atoms.append(Bin("EQ", Arg(1), Const(w)))
    rel = "within" if k <= bound else "beyond"
    return LoopCheck(f"check_{idx}_loop{g.n}", params, atoms, rng.choice(["panic", "panic", "flag", "assertTrue"]), 1, True, wit,
                     None, "and", f"loop:{shape}:{rel}-bound", True, [], f"--loop {bound}", shape, k, mask, bound)


SIB_FORMS = {
    # name: (valid assertion lhs/rhs builder, violable assertion lhs/rhs builder, witness (x, y) violating the violable one)
    # every operand pair is symbolic x symbolic, so the assertion-failure path survives the in-process branching check (the
    # operation is an uninterpreted f_evm_* there) and is only refuted / confirmed by the external solver after refinement
    "mul": (lambda x, y: (Bin("MUL", y, x), Bin("MUL", x, y)), lambda x, y: (Bin("MUL", y, y), Bin("MUL", x, y)), (1, 2)),
    "mulsum": (lambda x, y: (Bin("ADD", Bin("MUL", x, y), Bin("MUL", y, x)), Bin("MUL", Const(2), Bin("MUL", x, y))),
               lambda x, y: (Bin("ADD", Bin("MUL", x, y), Bin("MUL", y, y)), Bin("MUL", Const(2), Bin("MUL", x, y))), (1, 2)),
}


@dataclass
class SiblingCheck(Check):
    """several assertion-bearing sibling paths with structurally identical bodies `assert(L(x, y) == R(x, y))`, selected by the
    length of a dynamic parameter (halmos' own per-size branches) or by an `if (a == k_i)` ladder; some assertions are valid
    (their failure query is unsat, after refinement), exactly one is violable. `siblings` = [(selector E | None for "else",
    lhs E, rhs E)] in program order; `atoms`/`witness` describe the violable one (sweep, messages)."""
    siblings: list = field(default_factory=list)

    def body(self) -> list:
        items = list(self.prologue)
        for cond, lhs, rhs in self.siblings:
            bad = Not(Bin("EQ", lhs, rhs))
            if self.kind == "assertTrue":
                blk = vm_call("assertTrue", [Bin("EQ", lhs, rhs).compile()]) + ["STOP"]
            else:
                blk = asm.if_then(bad.compile(), asm.panic(1) if self.kind == "panic" else asm.set_fail_flag() + ["STOP"]) + ["STOP"]
            if cond is None:
                items += blk
            else:
                nxt = asm.fresh("sib")
                items += cond.compile() + ["ISZERO", ("ref", nxt), "JUMPI"] + blk + [("label", nxt)]
        return items + ["STOP"]


def gen_sibling_check(rng, idx, g: "Grammar", shape=None, form=None, violable_at=None, kind=None) -> SiblingCheck:
    shape = shape or rng.choice(["dynlen-bytes", "dynlen-bytes", "dynlen-array", "dynlen-3way", "ladder", "ladder"])
    form = form or rng.choice(sorted(SIB_FORMS))
    valid, viol, (wx, wy) = SIB_FORMS[form]
    kind = kind or rng.choice(["panic", "panic", "flag", "assertTrue"])
    if shape.startswith("dynlen"):
        typ = "uint256[]" if shape == "dynlen-array" else "bytes"
        params = [Param(typ, "d"), Param("uint256", "x"), Param("uint256", "y")]
        x, y = Arg(1), Arg(2)
        sizes = g.array_sizes if typ == "uint256[]" else g.bytes_sizes
        nz = [n for n in sizes if n != 0]
        if shape == "dynlen-3way":
            conds = [Bin("EQ", DynLen(0), Const(nz[-1])), Bin("EQ", DynLen(0), Const(nz[0])), None]
            lens = [nz[-1], nz[0], 0]
        else:
            conds = [Not(Not(DynLen(0))), None]          # if (d.length != 0) … else …
            lens = [nz[0], 0]
        pos = violable_at if violable_at is not None else rng.randrange(len(conds))
        pos %= len(conds)
        sibs = [(c,) + (viol(x, y) if i == pos else valid(x, y)) for i, c in enumerate(conds)]
        n = lens[pos]
        dv = bytes(n) if typ == "bytes" else [0] * n
        wit = [dv, wx, wy]
        sel = conds[pos] if conds[pos] is not None else Bin("EQ", DynLen(0), Const(0))
    else:
        params = [Param("uint256", "a"), Param("uint256", "x"), Param("uint256", "y")]
        x, y = Arg(1), Arg(2)
        ks = rng.sample([1, 2, 3, 5, 7, 100, 1 << 200], rng.choice([2, 3]))
        conds = [Bin("EQ", Arg(0), Const(k)) for k in ks]
        pos = (violable_at if violable_at is not None else rng.randrange(len(conds))) % len(conds)
        sibs = [(c,) + (viol(x, y) if i == pos else valid(x, y)) for i, c in enumerate(conds)]
        wit = [ks[pos], wx, wy]
        sel = conds[pos]
    l, r = viol(x, y)
    return SiblingCheck(f"check_{idx}_sib{g.n}", params, [sel, Not(Bin("EQ", l, r))], kind, 1, True, wit, None, "and",
                        f"siblings:{shape}:{form}:violable@{pos}of{len(sibs)}", True, [], None, sibs)


@dataclass
class SubstCheck(Check):
    """one sibling path learns `x == c1` (taken side of an inner `if (x == c1)`), the other sibling re-reads x from calldata and
    fails for x == c2 ≠ c1: whatever the first-explored sibling learnt about x must not be used on the other one.
    `learn_on`: which side of the outer `if (y …)` holds the learning branch (`fall` = fall-through, explored first by the DFS;
    `taken` = explored last); `deep`: the learning branch sits under one more symbolic branch; `use`: how x is used on the
    asserting side: `eq` (x == c2), `add` ((x + 1) == c2 + 1), `mem` (mstore(0x40, x); mload(0x40) == c2)."""
    learn_on: str = "fall"
    deep: bool = False
    use: str = "eq"
    c1: int = 5
    c2: int = 7

    def body(self) -> list:
        x, y = asm.calldata_arg(0), asm.calldata_arg(1)
        def mk_learn():
            return asm.if_then(asm.eq_const(x, self.c1), [("push", 1), ("push", 0x60), "MSTORE"])

        learn = mk_learn()
        if self.deep:
            learn = asm.if_then(asm.calldata_arg(1) + [("push", 3), "GT"], mk_learn(), mk_learn())
        if self.use == "add":
            g = asm.eq_const(x + [("push", 1), "ADD"], (self.c2 + 1) % W)
        elif self.use == "mem":
            g = asm.eq_const(x + [("push", 0x40), "MSTORE", ("push", 0x40), "MLOAD"], self.c2)
        else:
            g = asm.eq_const(x, self.c2)
        if self.kind == "assertTrue":
            fail = vm_call("assertTrue", [g + ["ISZERO"]]) + ["STOP"]
        else:
            fail = asm.if_then(g, asm.panic(1) if self.kind == "panic" else asm.set_fail_flag() + ["STOP"])
        outer = y + [("push", 100), "LT"]            # 100 < y
        if self.learn_on == "fall":
            return list(self.prologue) + asm.if_then(outer, fail + ["STOP"], learn + ["STOP"]) + ["STOP"]
        return list(self.prologue) + asm.if_then(outer, learn + ["STOP"], fail + ["STOP"]) + ["STOP"]


def gen_subst_check(rng, idx, g: "Grammar", learn_on=None, deep=None, use=None, kind=None) -> SubstCheck:
    learn_on = learn_on or rng.choice(["fall", "fall", "taken"])
    deep = rng.random() < 0.4 if deep is None else deep
    use = use or rng.choice(["eq", "add", "mem"])
    c1, c2 = rng.sample([5, 7, 0, 1, 1 << 255, W - 1, 42], 2)
    wy = 1000 if learn_on == "fall" else 3
    params = [Param("uint256", "x"), Param("uint256", "y")]
    side = Bin("GT", Arg(1), Const(100)) if learn_on == "fall" else Not(Bin("GT", Arg(1), Const(100)))
    return SubstCheck(f"check_{idx}_subst{g.n}", params, [side, Bin("EQ", Arg(0), Const(c2))], kind or rng.choice(["panic", "flag", "assertTrue"]),
                      1, True, [c2, wy], None, "and", f"sibling-learns-eq:{learn_on}:{'deep' if deep else 'flat'}:{use}", True, [], None,
                      learn_on, deep, use, c1, c2)


@dataclass
class Generated:
    desc: TestContract
    checks: list           # [Check]
    storage: dict          # slot -> value written by setUp
    others: list = field(default_factory=list)
    config: dict = field(default_factory=dict)  # halmos config overrides this contract is meant to run with
    dyn_sizes: dict = field(default_factory=dict)  # param name -> size candidates (the bounds halmos prints)


SMALL = [0, 1, 2, 3, 5, 7, 10, 42, 100, 255, 256, 1000, 65535]
BIG = [W - 1, W - 2, 1 << 255, (1 << 255) - 1, 1 << 128, (1 << 128) - 1, 1 << 160, (1 << 160) - 1, 1 << 64]
DEFAULT_BYTES_SIZES = [0, 65, 1024]
DEFAULT_ARRAY_SIZES = [0, 1, 2]


class Grammar:
    def __init__(self, rng, pool=(), bytes_sizes=None, array_sizes=None, panic_codes=(1,), refine=True):
        self.rng = rng
        self.refine = refine  # False: no symbolic x symbolic MUL/DIV/MOD (their queries are slow / time out with some solvers)
        self.panic_codes = list(panic_codes)  # codes the generated Panic failures draw from
        self.pool = [v % W for v in pool]
        self.bytes_sizes = list(bytes_sizes or DEFAULT_BYTES_SIZES)
        self.array_sizes = list(array_sizes or DEFAULT_ARRAY_SIZES)
        self.n = 0

    # -- values
    def word(self, typ="uint256"):
        r = self.rng
        if typ == "bool":
            return r.randrange(2)
        if typ == "address":
            return r.choice([0, 1, 0xCAFE, FOUNDRY_CALLER, FOUNDRY_TEST, M160, r.randrange(1 << 160)])
        if typ == "int256":
            return r.choice([0, 1, W - 1, W - 3, 1 << 255, (1 << 255) - 1, r.randrange(100), (W - r.randrange(1, 100)) % W])
        k = r.random()
        if k < 0.45:
            return r.choice(SMALL)
        if k < 0.6 and self.pool:
            return r.choice(self.pool)
        if k < 0.8:
            return r.choice(BIG)
        if k < 0.9:
            return r.randrange(1 << 16)
        return r.randrange(W)

    def dyn_value(self, p: Param):
        r = self.rng
        if p.typ == "bytes":
            n = r.choice(self.bytes_sizes)
            return bytes(r.randrange(256) for _ in range(n))
        n = r.choice(self.array_sizes)
        return [self.word() for _ in range(n)]

    # -- atoms true under the witness
    def true_atom(self, params, wit, storage, need=None):
        """-> (atom, tag); `need`: a tag class to force ('refine', 'hash', 'len', 'storage', …)"""
        r = self.rng
        stat = [i for i, p in enumerate(params) if not p.dynamic]
        dyn = [i for i, p in enumerate(params) if p.dynamic]
        kinds = []
        if stat:
            kinds += ["eq", "lt", "gt", "mask", "hash1", "add"]
            if any(params[i].typ == "int256" for i in stat):
                kinds += ["slt"]
            if storage:
                kinds += ["storage", "storage"]
        if len(stat) >= 2:
            kinds += ["mul", "mul", "div", "mod", "hash2", "ltvar"]
        if stat:
            kinds += ["mulc", "modc"]
        if dyn:
            kinds += ["len", "len", "dword", "dhash"]
        kinds += ["concop"]
        if need == "concop":
            kinds = ["concop"]
        if not self.refine:
            kinds = [k for k in kinds if k not in ("mul", "div", "mod")]
        if need == "refine":
            kinds = [k for k in kinds if k in ("mul", "div", "mod")] or kinds
        elif need == "hash":
            kinds = [k for k in kinds if k in ("hash1", "hash2", "dhash")] or kinds
        elif need == "dyn":
            kinds = [k for k in kinds if k in ("len", "dword", "dhash")] or kinds
        elif need == "storage":
            kinds = [k for k in kinds if k == "storage"] or kinds
        elif need == "cmp":
            kinds = [k for k in kinds if k in ("eq", "lt", "gt", "slt", "ltvar", "mask")] or kinds
        k = r.choice(kinds)
        env = {"args": wit, "storage": storage}
        if k == "concop":
            # a sub-expression whose operands are all concrete at run time (literals, values stored by setUp): the word instruction
            # is evaluated by the engine's concrete fast path; dirty / boundary operands
            op = r.choice(["SIGNEXTEND", "SIGNEXTEND", "SIGNEXTEND", "SAR", "SMOD", "SDIV", "BYTE", "SHL", "SHR", "EXP", "MOD", "DIV",
                           "SLT", "SGT", "AND", "XOR", "SUB", "MUL"])

            def operand(small):
                if storage and r.random() < 0.35:
                    return SLoad(r.choice(sorted(storage)))
                if small:
                    return Const(r.choice([0, 1, 2, 3, 7, 8, 15, 30, 31, 32, 33, 255, 256, 257, W - 1]))
                return Const(r.choice(DIRTY + [self.word()]))

            a = operand(op in ("SIGNEXTEND", "SAR", "BYTE", "SHL", "SHR"))
            b = operand(op == "EXP")
            e = Bin(op, a, b)
            if stat and r.random() < 0.5:
                # mixed with the symbolic parameter: arg == f(concrete operands)
                i = r.choice(stat)
                d = (wit[i] - e.ev(env)) % W
                return Bin("EQ", Bin("SUB", Arg(i), Const(d)), e), "concop:" + op          # arg - d == f(concrete operands)
            return Bin("EQ", e, Const(e.ev(env))), "concop:" + op
        if k in ("eq", "lt", "gt", "mask", "hash1", "add", "slt", "storage", "mulc", "modc"):
            i = r.choice([j for j in stat if params[j].typ == "int256"] if k == "slt" else stat)
            w = wit[i] % W
            a = Arg(i)
            if k == "eq":
                return Bin("EQ", a, Const(w)), "eq"
            if k == "lt":
                if w == W - 1:
                    return Bin("EQ", a, Const(w)), "eq"
                return Bin("LT", a, Const(min(W - 1, w + r.choice([1, 1, 2, 100])))), "lt"
            if k == "gt":
                if w == 0:
                    return Bin("EQ", a, Const(0)), "eq"
                return Bin("GT", a, Const(max(0, w - r.choice([1, 1, 2, 100])))), "gt"
            if k == "slt":
                if _s(w) == (1 << 255) - 1:
                    return Bin("EQ", a, Const(w)), "eq"
                return Bin("SLT", a, Const((_s(w) + 1) % W)), "slt"
            if k == "mask":
                m = r.choice([0xFF, 0xFFFF, 1, W - 1 - 0xFF, 1 << 255, 0xF0])
                return Bin("EQ", Bin("AND", a, Const(m)), Const(w & m)), "mask"
            if k == "hash1":
                return Bin("EQ", KeccakWords([a]), Const(KeccakWords([a]).ev(env))), "hash"
            if k == "add":
                c = self.word()
                return Bin("EQ", Bin("ADD", a, Const(c)), Const((w + c) % W)), "add"
            if k == "mulc":
                c = r.choice([2, 3, 5, 7, 1 << 128, W - 1])
                return Bin("EQ", Bin("MUL", a, Const(c)), Const((w * c) % W)), "mulc"
            if k == "modc":
                c = r.choice([2, 3, 7, 10, 256, 1 << 128])
                return Bin("EQ", Bin("MOD", a, Const(c)), Const(w % c)), "modc"
            if k == "storage":
                s = r.choice(sorted(storage))
                d = (w - storage[s]) % W
                if r.random() < 0.5:
                    return Bin("EQ", a, Bin("ADD", SLoad(s), Const(d))), "storage"
                return Bin("EQ", Bin("SUB", a, Const(d)), SLoad(s)), "storage"
        if k in ("mul", "div", "mod", "hash2", "ltvar"):
            i, j = r.sample(stat, 2)
            a, b = Arg(i), Arg(j)
            wa, wb = wit[i] % W, wit[j] % W
            if k == "hash2":
                e = KeccakWords([a, b])
                return Bin("EQ", e, Const(e.ev(env))), "hash"
            if k == "ltvar":
                if wa < wb:
                    return Bin("LT", a, b), "ltvar"
                if wa > wb:
                    return Bin("GT", a, b), "ltvar"
                return Bin("EQ", a, b), "eqvar"
            op = {"mul": "MUL", "div": "DIV", "mod": "MOD"}[k]
            e = Bin(op, a, b)
            return Bin("EQ", e, Const(e.ev(env))), "refine:" + k
        i = r.choice(dyn)
        v = wit[i]
        if k == "len":
            return Bin("EQ", DynLen(i), Const(len(v))), "len"
        if k == "dword":
            if len(v) == 0:
                return Bin("EQ", DynLen(i), Const(0)), "len"
            nwords = (len(v) + 31) // 32 if params[i].typ == "bytes" else len(v)
            kk = r.randrange(min(nwords, 3))
            e = DynWord(i, kk)
            return Bin("EQ", Bin("AND", Bin("EQ", DynLen(i), Const(len(v))), Bin("EQ", e, Const(e.ev(env)))), Const(1)), "dword"
        e = KeccakDyn(i, elem_words=(params[i].typ != "bytes"))
        return Bin("AND", Bin("EQ", DynLen(i), Const(len(v))), Bin("EQ", e, Const(e.ev(env)))), "dhash"

    def contradiction(self, params, wit, storage, atoms):
        """-> (extra atoms, assume | None, tag): the conjunction with the extras has no ABI-valid solution within the bounds"""
        r = self.rng
        stat = [i for i, p in enumerate(params) if not p.dynamic]
        dyn = [i for i, p in enumerate(params) if p.dynamic]
        kinds = ["negate", "negate"]
        if stat:
            kinds += ["range", "range", "hash-inj", "assume", "divlt", "modge", "storage-ne", "parity"]
        if len(stat) >= 2 and self.refine:
            kinds += ["mulsmall", "modvar", "divvar"]
        if dyn:
            kinds += ["len-out", "len-out", "len-two"]
        k = r.choice(kinds)
        if k == "negate":
            a = r.choice(atoms)
            return [Not(a)], None, "negate"
        if k in ("len-out", "len-two"):
            i = r.choice(dyn)
            sizes = self.bytes_sizes if params[i].typ == "bytes" else self.array_sizes
            if k == "len-out":
                bad = r.choice([s + 1 for s in sizes if s + 1 not in sizes] + [max(sizes) + 32])
                return [Bin("EQ", DynLen(i), Const(bad))], None, "len-out-of-bounds"
            s1, s2 = (sizes + sizes)[:2]
            if s1 == s2:
                return [Bin("LT", DynLen(i), Const(s1)), Bin("GT", DynLen(i), Const(s1))], None, "len-range"
            return [Bin("EQ", DynLen(i), Const(s1)), Bin("EQ", DynLen(i), Const(s2))], None, "len-two"
        i = r.choice(stat)
        a = Arg(i)
        c = self.word()
        if k == "range":
            c = c or 5
            v = r.choice(["lt-gt", "gt-lt1", "eq-eq", "lt0"])
            if v == "lt-gt":
                return [Bin("LT", a, Const(c)), Bin("GT", a, Const(c))], None, "range:lt-gt"
            if v == "gt-lt1":
                return [Bin("GT", a, Const(c - 1)), Bin("LT", a, Const(c))], None, "range:empty-open-interval"
            if v == "eq-eq":
                return [Bin("EQ", a, Const(c)), Bin("EQ", a, Const((c + 1) % W))], None, "range:two-values"
            return [Bin("LT", a, Const(0))], None, "range:lt0"
        if k == "hash-inj":
            e = KeccakWords([a])
            h = e.ev({"args": [c] * len(params), "storage": storage})
            return [Bin("EQ", e, Const(h)), Not(Bin("EQ", a, Const(c)))], None, "hash-injective"
        if k == "assume":
            lim = r.choice([10, 100, 1 << 128])
            return [Bin("EQ", a, Const(lim + r.randrange(1, 50)))], Bin("LT", a, Const(lim)), "assume-excludes"
        if k == "divlt":
            c = c or 3
            d = r.choice([2, 3, 10])
            return [Bin("EQ", Bin("DIV", a, Const(d)), Const(c)), Bin("LT", a, Const(c))], None, "div-const"
        if k == "modge":
            d = r.choice([2, 3, 10, 256])
            return [Bin("EQ", Bin("MOD", a, Const(d)), Const(d + r.randrange(3)))], None, "mod-const-ge"
        if k == "parity":
            return [Bin("EQ", Bin("MUL", a, Const(2)), Const(2 * r.randrange(1 << 64) + 1))], None, "mul2-odd"
        if k == "storage-ne":
            if not storage:
                return [Bin("LT", a, Const(0))], None, "range:lt0"
            s = r.choice(sorted(storage))
            return [Bin("EQ", SLoad(s), Const((storage[s] + r.randrange(1, 9)) % W))], None, "storage-other-value"
        j = r.choice([x for x in stat if x != i])
        b = Arg(j)
        if k == "mulsmall":
            return [Bin("EQ", Bin("MUL", a, b), Const(r.choice([15, 11, 26]))), Bin("LT", a, Const(3)), Bin("LT", b, Const(4))], None, "refine:mul-small"
        if k == "modvar":
            c = (c % 1000) + 1
            return [Bin("EQ", Bin("MOD", a, b), Const(c)), Bin("EQ", b, Const(c))], None, "refine:mod-var"
        c = (c % 1000) + 1
        return [Bin("EQ", Bin("DIV", a, b), Const(c)), Bin("LT", a, Const(c))], None, "refine:div-var"

    # -- one check function
    def check(self, idx, storage, reachable, need=None, dynamic=None) -> Check:
        r = self.rng
        self.n += 1
        nstat = r.choice([1, 2, 2, 3])
        types = [r.choice(["uint256", "uint256", "uint256", "address", "bool", "int256"]) for _ in range(nstat)]
        if need in ("refine",) and types.count("uint256") < 2:
            types = ["uint256", "uint256"] + types[:1]
        if dynamic is None:
            dynamic = r.random() < 0.35
        params = [Param(t, f"p{j}") for j, t in enumerate(types)]
        if dynamic:
            params.insert(r.randrange(len(params) + 1), Param(r.choice(["bytes", "uint256[]"]), "d"))
        wit = [self.dyn_value(p) if p.dynamic else self.word(p.typ) for p in params]
        if need == "refine":
            # keep products / quotients interesting but solvable
            for j, p in enumerate(params):
                if p.typ == "uint256":
                    wit[j] = r.choice([2, 3, 5, 7, 12, 100, 255, 1 << 16, (1 << 128) + 1])
        atoms, tags = [], []
        for t in range(r.choice([1, 1, 2, 3])):
            a, tag = self.true_atom(params, wit, storage, need if t == 0 else None)
            atoms.append(a)
            tags.append(tag)
        assume, why = None, "+".join(tags)
        if not reachable:
            extra, assume, tag = self.contradiction(params, wit, storage, atoms)
            if tag in ("negate",):
                atoms = atoms + extra
            else:
                # keep the true atoms and add the contradictory ones at a random position
                pos = r.randrange(len(atoms) + 1)
                atoms = atoms[:pos] + extra + atoms[pos:]
            why = f"{why}|contra:{tag}"
        kind = r.choice(["panic", "panic", "flag", "assertTrue", "assertFalse", "assertEq"])
        code, expect = r.choice(self.panic_codes), True
        name = f"check_{idx}_{'r' if reachable else 'u'}{self.n}"
        return Check(name, params, atoms, kind, code, reachable, wit if reachable else None, assume,
                     r.choice(["and", "nested"]), why, expect)


def gen_contract(rng, name="T", ntests=3, pool=(), with_helper=None, bytes_sizes=None, array_sizes=None,
                 panic_codes=(1,), refine=True, touch=False, loops=False, siblings=None, subst=None, jumps=None, tails=None, creates=None) -> Generated:
    """setUp() storing constants (optionally deploying a helper whose address is kept in a slot) + `ntests` check functions,
    alternately reachable / unreachable, at least one with a dynamic parameter and one needing refinement per few contracts."""
    g = Grammar(rng, pool, bytes_sizes, array_sizes, panic_codes, refine)
    storage = {}
    for s in rng.sample(range(0, 6), rng.choice([1, 2, 3])):
        storage[s] = g.word() or 77
    setup = []
    for s, v in storage.items():
        setup += [("push", v), ("push", s), "SSTORE"]
    others = []
    tail_chk = None
    if tails:
        g.n += 1
        tail_chk = gen_tail_check(rng, ntests + 4, g, **(tails if isinstance(tails, dict) else {}))
        if tail_chk.callee == "helper":
            with_helper = True
    if with_helper is None:
        with_helper = rng.random() < 0.3
    if with_helper:
        # helper: a tiny contract whose runtime returns a constant; setUp CREATEs it and stores the address in slot 9
        helper = TestContract(f"{name}Helper", [Fn("get()", asm.return_word([("push", 0x1234)]), mutability="view",
                                                   outputs=[{"name": "", "type": "uint256", "internalType": "uint256"}])],
                              file=f"{name}Helper.sol")
        hb_ = build(helper)
        others.append(helper)
        blob = hb_.creation
        setup += [("push", len(blob)), ("ref", "helper_blob"), ("push", 0), "CODECOPY",
                  ("push", len(blob)), ("push", 0), ("push", 0), "CREATE", ("push", 9), "SSTORE"]
        storage[9] = FIRST_CREATED
    needs = (["refine"] if refine else []) + ["hash", "dyn", "storage", "cmp", "concop", None]
    rng.shuffle(needs)
    checks = []
    first_reach = rng.random() < 0.5
    for t in range(ntests):
        reachable = (t % 2 == 0) == first_reach
        need = needs[t % len(needs)]
        checks.append(g.check(t, {k: v for k, v in storage.items()}, reachable, need=need,
                              dynamic=True if need == "dyn" else None))
    if loops:
        g.n += 1
        checks.append(gen_loop_check(rng, ntests, g))
    if tail_chk is not None:
        checks.append(tail_chk)
    if creates:
        for cv in (creates if isinstance(creates, list) else [creates]):
            g.n += 1
            checks.append(gen_create_check(rng, ntests + 5, g, **(cv if isinstance(cv, dict) else {})))
    if jumps:
        g.n += 1
        checks.append(gen_jump_check(rng, ntests + 3, g, **(jumps if isinstance(jumps, dict) else {})))
    if subst:
        g.n += 1
        checks.append(gen_subst_check(rng, ntests + 2, g, **(subst if isinstance(subst, dict) else {})))
    if siblings:
        g.n += 1
        sk = siblings if isinstance(siblings, dict) else {}
        checks.append(gen_sibling_check(rng, ntests + 1, g, **sk))
    if touch:
        # every test bumps slot 7 first and its guard requires the bumped value 1: a write leaking from another test (or from a
        # sibling path) turns the guard false
        for c in checks:
            c.prologue = [("push", TOUCH_SLOT), "SLOAD", ("push", 1), "ADD", ("push", TOUCH_SLOT), "SSTORE"]
            c.atoms = c.atoms + [Bin("EQ", SLoad(TOUCH_SLOT), Const(1))]
            c.why = c.why.replace("|contra:", "+touch|contra:") if "|contra:" in c.why else c.why + "+touch"
    fns = [Fn("setUp()", setup + ["STOP"] + ([("mark", "helper_blob"), ("raw", blob)] if with_helper else []))]
    # the blob must not be executed: setUp ends in STOP before it; Fn bodies get another STOP appended
    for c in checks:
        fns.append(Fn(c.named, c.body(), devdoc=c.devdoc))
    desc = TestContract(name, fns)
    return Generated(desc, checks, storage, others,
                     dyn_sizes={"bytes": g.bytes_sizes, "uint256[]": g.array_sizes})


def push32_overhang(K: int) -> int:
    """how many code bytes AFTER a `PUSH32 K` a byte-by-byte scan would skip if it did not skip the 32 operand bytes as one unit
    but read them as opcodes (PUSHn bytes inside the constant then swallow what follows)"""
    b, i = K.to_bytes(32, "big"), 0
    while i < 32:
        i += 1 + (b[i] - 0x5F) if 0x60 <= b[i] <= 0x7F else 1
    return i - 32


EIP1967_IMPL_SLOT = 0x360894A13BA1A3210667C828492DB98DCA3E2076CC3735A920A3CA505D382BBC


@dataclass
class JumpCheck(Check):
    """the failure sits behind a JUMP to a JUMPDEST that directly follows code containing a PUSH32 constant with embedded
    PUSH-opcode bytes: `if (guard) goto bad; PUSH32 K; POP; STOP; bad: Panic(1)`. Jump-destination analysis must skip the 32
    operand bytes as data (Yellow Paper 9.4.3); K is chosen so that reading them as code would hide `bad`."""
    K: int = EIP1967_IMPL_SLOT
    use_k: str = "pop"

    def body(self) -> list:
        g = conj(self.atoms).compile()
        skip, bad = asm.fresh("skip"), asm.fresh("bad")
        mid = [("push", self.K, 32)] + (["POP"] if self.use_k == "pop" else ["SLOAD", "POP"] if self.use_k == "sload" else []) + ["STOP"]
        fail = asm.panic(1) if self.kind == "panic" else (asm.set_fail_flag() + ["STOP"])
        return list(self.prologue) + g + ["ISZERO", ("ref", skip), "JUMPI", ("ref", bad), "JUMP", ("label", skip)] + mid + \
            [("label", bad)] + fail + ["STOP"]


def gen_jump_check(rng, idx, g: "Grammar", K=None, use_k=None) -> JumpCheck:
    use_k = use_k or rng.choice(["pop", "sload", "none"])
    gap = {"pop": 2, "sload": 3, "none": 1}[use_k]
    if K is None:
        if rng.random() < 0.3:
            K = EIP1967_IMPL_SLOT
        else:
            # 32 bytes without PUSH opcodes except one PUSHn near the end whose operand reaches past the constant
            j = rng.randrange(0, 6)                     # distance of the PUSHn byte from the end of the constant
            n = j + gap + rng.randrange(1, 8)            # operand length: covers the rest of the constant, the gap and the JUMPDEST
            n = min(n, 31)
            body = [rng.choice([x for x in range(256) if not 0x60 <= x <= 0x7F]) for _ in range(32)]
            body[31 - j] = 0x5F + n
            K = int.from_bytes(bytes(body), "big")
    assert push32_overhang(K) > gap, (hex(K), push32_overhang(K), gap)
    c = g.word()
    params = [Param("uint256", "x")]
    return JumpCheck(f"check_{idx}_jump{g.n}", params, [Bin("EQ", Arg(0), Const(c))], rng.choice(["panic", "flag"]), 1, True, [c], None,
                     "and", f"jumpdest-after-push32:{'eip1967' if K == EIP1967_IMPL_SLOT else 'random'}:{use_k}", True, [], None, K, use_k)


@dataclass
class TailCheck(Check):
    """a word depending on a parameter is stored in the TAIL of a call's output window; the callee returns fewer bytes than the
    window (identity precompile with a shorter input, or the helper contract returning one word into a two-word window); the
    failure is guarded by the word read back from the tail (the EVM leaves the part of the window beyond the returned data
    untouched)."""
    callee: str = "identity"   # identity | helper
    op: str = "STATICCALL"
    short: int = 32            # bytes actually returned
    window: int = 64

    def body(self) -> list:
        x = asm.calldata_arg(0)
        out = 0x100
        tail = out + self.window - 32
        items = list(self.prologue) + x + [("push", tail), "MSTORE"]
        val = [] if self.op == "STATICCALL" else [("push", 0)]
        if self.callee == "identity":
            items += [("push", 0xAB), ("push", 0x80), "MSTORE"]
            items += [("push", self.window), ("push", out), ("push", self.short), ("push", 0x80)] + val + [("push", 4), "GAS", self.op, "POP"]
        else:
            items += asm.selector_word(asm.selector("get()")) + [("push", 0x80), "MSTORE"]
            items += [("push", self.window), ("push", out), ("push", 4), ("push", 0x80)] + val + [("push", FIRST_CREATED, 20), "GAS", self.op, "POP"]
        g = asm.eq_const([("push", tail), "MLOAD"], self._c)
        for a in self.atoms[1:]:
            g = g + a.compile() + ["AND"]
        bad = asm.panic(1) if self.kind == "panic" else (asm.set_fail_flag() + ["STOP"])
        if self.kind == "assertTrue":
            return items + vm_call("assertTrue", [g + ["ISZERO"]]) + ["STOP"]
        return items + asm.if_then(g, bad) + ["STOP"]

    _c: int = 0


def gen_tail_check(rng, idx, g: "Grammar", callee=None, op=None) -> TailCheck:
    callee = callee or rng.choice(["identity", "identity", "helper"])
    op = op or rng.choice(["STATICCALL", "CALL"])
    short = rng.choice([1, 31, 32]) if callee == "identity" else 32
    window = rng.choice([64, 96]) if short == 32 else rng.choice([64, 33 + 31])
    c = g.word() or 9
    chk = TailCheck(f"check_{idx}_tail{g.n}", [Param("uint256", "x")], [Bin("EQ", Arg(0), Const(c))], rng.choice(["panic", "flag", "assertTrue"]),
                    1, True, [c], None, "and", f"memory-tail-of-output-window:{callee}:{op}:ret{short}of{window}", True, [], None,
                    callee, op, short, window)
    chk._c = c
    return chk


@dataclass
class CreateCheck(Check):
    """`new C(arg)` with arg derived from the test's parameter; C's constructor reads the argument appended to the init code and
    ends in Panic(code) when arg == c, otherwise deploys; when the creation fails the caller either bubbles the revert data up
    (`returndatacopy(0, 0, returndatasize()); revert(0, returndatasize())`: the test then ends in that Panic) or swallows it."""
    c: int = 7
    bubble: bool = True
    derive: str = "x"        # x | x+1 | x&0xff
    create2: bool = False

    def body(self) -> list:
        ctor = asm.assemble([("push", 0x20), ("push", 0x20), "CODESIZE", "SUB", ("push", 0), "CODECOPY"] +
                            asm.if_then(asm.eq_const([("push", 0), "MLOAD"], self.c), asm.panic(self.panic_code)) +
                            [("push", 0), ("push", 0), "RETURN"])
        x = asm.calldata_arg(0)
        arg = x + ([("push", 1), "ADD"] if self.derive == "x+1" else [("push", 0xFF), "AND"] if self.derive == "x&0xff" else [])
        blob, fail = asm.fresh("ctor"), asm.fresh("cfail")
        n = len(ctor)
        items = list(self.prologue) + [("push", n), ("ref", blob), ("push", 0), "CODECOPY"] + arg + [("push", n), "MSTORE"]
        items += ([("push", 0x5A17)] if self.create2 else []) + [("push", n + 32), ("push", 0), ("push", 0), "CREATE2" if self.create2 else "CREATE"]
        items += ["ISZERO", ("ref", fail), "JUMPI", "STOP", ("label", fail)]
        if self.bubble:
            items += ["RETURNDATASIZE", ("push", 0), ("push", 0), "RETURNDATACOPY", "RETURNDATASIZE", ("push", 0), "REVERT"]
        else:
            items += [("push", 1), ("push", 0x40), "MSTORE", "STOP"]
        return items + [("mark", blob), ("raw", ctor)]


def gen_create_check(rng, idx, g: "Grammar", bubble=None, derive=None, create2=None) -> CreateCheck:
    bubble = rng.random() < 0.7 if bubble is None else bubble
    derive = derive or rng.choice(["x", "x+1", "x&0xff"])
    create2 = rng.random() < 0.3 if create2 is None else create2
    c = rng.choice([7, 1, 42, 200]) if derive == "x&0xff" else (g.word() or 3)
    wx = c if derive == "x" else (c - 1) % W if derive == "x+1" else c + rng.choice([0, 0x100, 1 << 200])
    lhs = Arg(0) if derive == "x" else Bin("ADD", Arg(0), Const(1)) if derive == "x+1" else Bin("AND", Arg(0), Const(0xFF))
    return CreateCheck(f"check_{idx}_create_{'r' if bubble else 'u'}{g.n}", [Param("uint256", "x")], [Bin("EQ", lhs, Const(c))], "panic", 1,
                       bubble, [wx] if bubble else None, None, "and",
                       f"constructor-panic:{'bubbled' if bubble else 'swallowed'}:{derive}:{'create2' if create2 else 'create'}", True, [], None,
                       c, bubble, derive, create2)


@dataclass
class ValueCheck(Check):
    """a value-bearing CALL to a callee deployed by setUp (always reverting / accepting / reverting iff the value is odd) whose
    failure is swallowed, followed by an assertion on balances that holds only with (or only without) the refund of the value"""
    items: list = field(default_factory=list)

    def body(self) -> list:
        return list(self.prologue) + list(self.items) + ["STOP"]


VALUE_CALLEES = {
    "revert": "PUSH0 PUSH0 REVERT",
    "accept": "STOP",
    "odd-reverts": "CALLVALUE PUSH1 0x01 AND PUSH @r JUMPI STOP r: PUSH0 PUSH0 REVERT",
    "invalid": "INVALID",
}
VALUE_RELATIONS = ["self-minus-v", "self-same", "callee-eq-v", "callee-zero"]


def gen_value_contract(rng, name="Val", variants=None) -> Generated:
    """setUp CREATEs the callees; every test: v = x & 0xffff; before = balance(this); callee.call{value: v}(""); assert(relation)"""
    kinds = sorted(VALUE_CALLEES)
    others, setup, blobs, addr = [], [], [], {}
    for k, kind in enumerate(kinds):
        rt = asm.assemble_text(VALUE_CALLEES[kind])
        d = TestContract(f"{name}Callee{k}", [], runtime_override=rt, file=f"{name}Callee{k}.sol")
        others.append(d)
        blob = asm.creation_code(rt)
        lab = asm.fresh("vblob")
        blobs += [("mark", lab), ("raw", blob)]
        setup += [("push", len(blob)), ("ref", lab), ("push", 0), "CODECOPY", ("push", len(blob)), ("push", 0), ("push", 0), "CREATE", "POP"]
        addr[kind] = FIRST_CREATED + k
    variants = variants or [(rng.choice(kinds), rng.choice(VALUE_RELATIONS)) for _ in range(3)]
    checks = []
    for t, (kind, rel) in enumerate(variants):
        a = addr[kind]
        v = asm.calldata_arg(0) + [("push", 0xFFFF), "AND"]
        call = [0, 0, 0, 0] + v + [("push", a, 20), "GAS", "CALL", "POP"]
        if rel == "self-minus-v":
            holds = ["SELFBALANCE"] + call + v + ["SWAP1", "SUB", "SELFBALANCE", "EQ"]
        elif rel == "self-same":
            holds = ["SELFBALANCE"] + call + ["SELFBALANCE", "EQ"]
        elif rel == "callee-eq-v":
            holds = call + v + [("push", a, 20), "BALANCE", "EQ"]
        else:
            holds = call + [("push", a, 20), "BALANCE", "ISZERO"]
        kindf = rng.choice(["panic", "panic", "flag", "assertTrue"])
        if kindf == "assertTrue":
            items = vm_call("assertTrue", [holds])
        else:
            items = asm.if_then(holds + ["ISZERO"], asm.panic(1) if kindf == "panic" else asm.set_fail_flag() + ["STOP"])

        def accepted(val, kind=kind):
            return kind == "accept" or (kind == "odd-reverts" and val % 2 == 0)

        def ok(val, rel=rel):
            acc = accepted(val)
            return val == 0 or (acc if rel in ("self-minus-v", "callee-eq-v") else not acc)

        bad = next((val for val in (1, 2, 3) if not ok(val)), None)
        wit = [bad + rng.choice([0, 1 << 16, 1 << 200])] if bad is not None else None
        atoms = [Bin("EQ", Bin("AND", Arg(0), Const(0xFFFF)), Const(bad if bad is not None else 1))]
        checks.append(ValueCheck(f"check_{t}_value_{'r' if bad is not None else 'u'}", [Param("uint256", "x")], atoms, kindf, 1,
                                 bad is not None, wit, None, "and", f"value-call:{kind}:{rel}", True, [], None, items))
    fns = [Fn("setUp()", setup + ["STOP"] + blobs)] + [Fn(c.named, c.body()) for c in checks]
    return Generated(TestContract(name, fns), checks, {}, others, dyn_sizes={"bytes": DEFAULT_BYTES_SIZES, "uint256[]": DEFAULT_ARRAY_SIZES})


# ------------------------------------------------------------------------------------------------ inputs to try


def sweep_inputs(rng, chk: Check, gen: Generated, limit=60):
    """boundary values + constants of the guard (±1) + a small domain sweep, ABI-valid and within the dynamic bounds"""
    cs = set()
    for a in chk.atoms + ([chk.assume] if chk.assume is not None else []):
        cs |= a.consts()
    cand = {0, 1, 2, 3, W - 1, 1 << 255}
    for c in cs:
        cand |= {c % W, (c + 1) % W, (c - 1) % W}
    cand = sorted(cand)

    def dom(p: Param):
        if p.typ == "bool":
            return [0, 1]
        if p.typ == "address":
            return sorted({c & M160 for c in cand})
        if p.typ == "bytes":
            out = []
            for n in gen.dyn_sizes["bytes"]:
                out += [bytes(n), bytes([0xAB]) * n]
            return out
        if p.typ == "uint256[]":
            out = []
            for n in gen.dyn_sizes["uint256[]"]:
                out += [[0] * n, [rng.choice(cand) for _ in range(n)]]
            return out
        return cand

    doms = [dom(p) for p in chk.params]
    total = 1
    for d in doms:
        total *= len(d)
    out = []
    if total <= limit:
        out = [list(t) for t in itertools.product(*doms)]
    else:
        for _ in range(limit):
            out.append([rng.choice(d) for d in doms])
    # variations of the witness (one coordinate changed) are the most informative neighbours
    if chk.witness is not None:
        out.append(list(chk.witness))
        for i, p in enumerate(chk.params):
            if not p.dynamic:
                for d in (1, -1):
                    v = list(chk.witness)
                    v[i] = (v[i] + d) % W
                    if p.typ == "bool":
                        v[i] &= 1
                    if p.typ == "address":
                        v[i] &= M160
                    out.append(v)
    return out


# ------------------------------------------------------------------------------------------------ reference runs


@dataclass
class Outcome:
    halt: str
    data: bytes
    storage: dict   # (addr, slot) -> value
    balances: dict
    created: int
    ts: int
    num: int
    raw: str

    def failed_flag(self) -> bool:
        return self.storage.get((HEVM, FAILED_SLOT), 0) != 0

    def panic_code(self):
        if self.halt == "revert" and len(self.data) == 36 and self.data[:4] == asm.PANIC_SELECTOR.to_bytes(4, "big"):
            return int.from_bytes(self.data[4:], "big")
        return None

    def fails(self, panic_codes=(1,)) -> bool:
        """the concrete run is a test failure: Panic with a configured code at top level, or the global fail flag set"""
        pc = self.panic_code()
        if pc is not None and (not panic_codes or pc in panic_codes):
            return True
        return self.halt == "success" and self.failed_flag()

    def state_key(self, ignore=(HEVM,)):
        """persistent state as a hashable (storage of non-cheatcode accounts, balances, block params)"""
        st = tuple(sorted((k, v) for k, v in self.storage.items() if k[0] not in ignore))
        return (st, tuple(sorted(self.balances.items())), self.ts, self.num)


def parse_outcome(reply: str) -> Outcome:
    if reply.startswith("halt=outOfFuel") or reply == "bad-op":
        return Outcome(reply.replace("halt=", ""), b"", {}, {}, 0, 0, 0, reply)
    f = dict(tok.split("=", 1) for tok in reply.split(" "))
    st = {}
    if f["storage"] != "-":
        for e in f["storage"].split(","):
            k, v = e.rsplit("=", 1)
            a, s = k.split(":")
            st[(int(a, 16), int(s, 16))] = int(v, 16)
    bal = {}
    if f["balances"] != "-":
        for e in f["balances"].split(","):
            k, v = e.split("=")
            bal[int(k, 16)] = int(v, 16)
    data = b"" if f["data"] == "-" else bytes.fromhex(f["data"])
    return Outcome(f["halt"], data, st, bal, int(f["created"]), int(f["ts"], 16), int(f["num"], 16), reply)


class RefBatch:
    """accumulate request lines for Driver/E2e.lean; `run(ctx)` executes them in one Lean process"""

    def __init__(self):
        self.lines = []
        self.replies = None

    def add(self, line: str) -> int:
        self.lines.append(line)
        return len(self.lines) - 1

    def world(self, desc: TestContract, snapshot=0, stub=None, extra_codes=None):
        """fresh world: cheatcode stub, test contract deployed by running its creation code, setUp() if present; saved under `snapshot`.
        -> index of the setUp reply (or of the constructor reply)"""
        b = build(desc)
        self.add("reset")
        self.add(f"param origin {hx(FOUNDRY_CALLER)}")
        self.add(f"code {hx(HEVM)} {hb(stub or hevm_stub())}")
        for a, c in (extra_codes or {}).items():
            self.add(f"code {hx(a)} {hb(c)}")
        self.add(f"balance {hx(FOUNDRY_TEST)} {hx(TEST_BALANCE)}")
        self.add(f"code {hx(FOUNDRY_TEST)} {hb(b.creation)}")
        idx = self.add(f"callc {hx(FOUNDRY_CALLER)} {hx(FOUNDRY_TEST)} 0 - {hx(FUEL)}")
        self.add(f"code {hx(FOUNDRY_TEST)} {hb(b.runtime)}")
        if "setUp()" in b.method_identifiers:
            idx = self.add(f"callc {hx(FOUNDRY_CALLER)} {hx(FOUNDRY_TEST)} 0 {b.method_identifiers['setUp()']} {hx(FUEL)}")
        self.add(f"save {hx(snapshot)}")
        return idx

    def load(self, snapshot=0):
        return self.add(f"load {hx(snapshot)}")

    def save(self, snapshot):
        return self.add(f"save {hx(snapshot)}")

    def call(self, to, data: bytes, sender=FOUNDRY_CALLER, value=0, commit=False) -> int:
        i = self.add(f"{'callc' if commit else 'call'} {hx(sender)} {hx(to)} {hx(value)} {hb(data)} {hx(FUEL)}")
        if commit:
            self.add(f"syncparam timestamp {hx(HEVM)} {hx(WARP_FLAG)} {hx(WARP_VAL)}")
            self.add(f"syncparam number {hx(HEVM)} {hx(ROLL_FLAG)} {hx(ROLL_VAL)}")
        return i

    def run(self, ctx):
        self.replies = ctx.lean("E2e").ask(self.lines) if self.lines else []
        return self.replies

    def outcome(self, i) -> Outcome:
        return parse_outcome(self.replies[i])


# ------------------------------------------------------------------------------------------------ counterexamples


_VAR = re.compile(r"^p_(.+)_([A-Za-z0-9\[\]]+)_[0-9a-f]{7}_(\d+)$")


def model_values(model: dict, params, dyn_sizes: dict):
    """halmos model ({full_name: ModelVariable}) -> (values in the generalised layout, max_sizes) for `abi_encode(…, max_sizes)`.
    Variables the model does not mention are 0 / empty (the query did not constrain them)."""
    by = {}
    for full, v in model.items():
        by[(v.variable_name, v.solidity_type)] = (v.value, v.size_bits)
    values, max_sizes = [], {}
    for p in params:
        if not p.dynamic:
            values.append(by.get((p.name, p.typ), (0, 256))[0])
            continue
        sizes = dyn_sizes[p.typ]
        max_sizes[p.name] = max(sizes)
        n = by.get((p.name, "length"), (0, 256))[0]
        if p.typ == "bytes":
            val, bits = by.get((p.name, "bytes"), (0, 0))
            full = ((max(sizes) + 31) // 32) * 32
            content = (val % (1 << (8 * full))).to_bytes(full, "big") if full else b""
            values.append((n, content))
        else:
            elems = [by.get((f"{p.name}[{k}]", "uint256"), (0, 256))[0] for k in range(max(sizes))]
            values.append((n, elems))
    return values, max_sizes


if __name__ == "__main__":
    import random

    rng = random.Random(1)
    stub = hevm_stub()
    print("stub", len(stub), "bytes")
    for s in range(5):
        g = gen_contract(random.Random(s), name=f"G{s}")
        b = build(g.desc)
        print(g.desc.name, len(b.runtime), "bytes;", [(c.canon, c.kind, c.reachable, c.why) for c in g.checks])
    p = [Param("uint256", "x"), Param("bytes", "b"), Param("uint256[]", "a")]
    enc = abi_encode(p, [7, b"\x01\x02", [5, 6]])
    assert enc[:32] == (7).to_bytes(32, "big") and int.from_bytes(enc[32:64], "big") == 96 and int.from_bytes(enc[64:96], "big") == 160
    assert enc[96:128] == (2).to_bytes(32, "big") and enc[128:130] == b"\x01\x02" and len(enc) == 160 + 96
    print("e2e self-test ok")


# ================================================================================================ invariant scenarios (C15, C20)

GETTERS = ["targetSenders", "excludeSenders", "targetContracts", "excludeContracts", "targetSelectors", "excludeSelectors"]
SENDER_A, SENDER_B, SENDER_C = 0xA11CE, 0xB0B, 0xCA401


def enc_address_array(addrs) -> bytes:
    return (32).to_bytes(32, "big") + len(addrs).to_bytes(32, "big") + b"".join(a.to_bytes(32, "big") for a in addrs)


def enc_fuzz_selectors(items) -> bytes:
    """FuzzSelector[] = (address addr, bytes4[] selectors)[]; items: list of (addr, [selector ints])"""
    heads, tails = [], b""
    base = 32 * len(items)
    for addr, sels in items:
        heads.append((base + len(tails)).to_bytes(32, "big"))
        body = addr.to_bytes(32, "big") + (64).to_bytes(32, "big") + len(sels).to_bytes(32, "big")
        body += b"".join(s.to_bytes(4, "big").ljust(32, b"\0") for s in sels)
        tails += body
    return (32).to_bytes(32, "big") + len(items).to_bytes(32, "big") + b"".join(heads) + tails


def const_getter(name: str, blob: bytes) -> Fn:
    """`function name() public view returns (…)` returning the constant ABI blob"""
    lab = asm.fresh("blob")
    body = [("push", len(blob)), ("ref", lab), ("push", 0), "CODECOPY", ("push", len(blob)), ("push", 0), "RETURN",
            ("mark", lab), ("raw", blob)]
    return Fn(f"{name}()", body, mutability="view")


def call_view(addr: int, sel: int, args=(), static=True) -> list:
    """(STATIC)CALL addr.sel(args…) and leave the first returned word on the stack (0 if the call failed / returned nothing)"""
    items = [("push", 0), ("push", 0x40), "MSTORE"] + asm.selector_word(sel) + [("push", 0), "MSTORE"]
    for i, a in enumerate(args):
        items += list(a) + [("push", 4 + 32 * i), "MSTORE"]
    items += [("push", 32), ("push", 0x40), ("push", 4 + 32 * len(args)), ("push", 0)]
    if not static:
        items += [("push", 0)]
    items += [("push", addr, 20), "GAS", "STATICCALL" if static else "CALL", "POP", ("push", 0x40), "MLOAD"]
    return items


def require(cond: list) -> list:
    ok = asm.fresh("req")
    return cond + [("ref", ok), "JUMPI"] + asm.revert_empty() + [("label", ok)]


@dataclass
class TFn:
    sig: str                 # named signature, e.g. "add(uint256 x)"
    body: list
    domains: list = field(default_factory=list)  # brute-force domain per argument (all static words)
    mutability: str = "nonpayable"
    calldatas: list | None = None   # explicit argument encodings for the brute force (functions with dynamic parameters)
    from_model: object = None       # f(model: {name: int}) -> argument encoding, to replay a printed counterexample call

    @property
    def canon(self):
        from .artifacts import parse_sig
        return parse_sig(self.sig)[1]


@dataclass
class Target:
    name: str
    fns: list       # [TFn]
    addr: int = 0
    runtime: bytes | None = None   # raw runtime (e.g. a fallback-only contract) instead of dispatcher + fns

    def desc(self) -> TestContract:
        if self.runtime is not None:
            return TestContract(self.name, [], runtime_override=self.runtime, file=f"{self.name}.sol")
        return TestContract(self.name, [Fn(f.sig, f.body, mutability=f.mutability,
                                           outputs=[{"name": "", "type": "uint256", "internalType": "uint256"}]
                                           if f.mutability == "view" else []) for f in self.fns], file=f"{self.name}.sol")


@dataclass
class Inv:
    name: str        # invariant_…
    body: list       # asm: Panic(1) / fail flag / vm.assert when violated
    note: str = ""


@dataclass
class Scenario:
    name: str
    targets: list            # [Target] deployed by setUp in this order (addresses FIRST_CREATED, +1, …)
    invs: list               # [Inv]
    filters: dict = field(default_factory=dict)  # getter name -> value (address list / [(addr, [sel])])
    senders: list = field(default_factory=lambda: [SENDER_A, SENDER_B, FOUNDRY_CALLER])  # brute-force domain of msg.sender
    tsdeltas: list = field(default_factory=lambda: [0])
    kind: str = ""
    with_getters: bool = True
    setup_extra: list = field(default_factory=list)   # asm appended to setUp after the targets are deployed
    # arbitrary initial storage (svm.enableSymbolicStorage): the brute force runs once per variant, a variant = [(addr, slot, value)]
    init_variants: list = field(default_factory=lambda: [[]])
    # further admissible initial storages to try when replaying a printed counterexample: f(calls, model) -> [variant]
    # (the model does not name the arbitrary initial storage; e.g. the entry m[k] for the k the counterexample chose)
    replay_inits: object = None

    def build(self) -> tuple:
        """-> (TestContract of the invariant test, [TestContract of targets])"""
        others, setup = [], []
        blobs = []
        for k, t in enumerate(self.targets):
            t.addr = FIRST_CREATED + k
            d = t.desc()
            others.append(d)
            blob = build(d).creation
            lab = asm.fresh("tblob")
            blobs += [("mark", lab), ("raw", blob)]
            setup += [("push", len(blob)), ("ref", lab), ("push", 0), "CODECOPY",
                      ("push", len(blob)), ("push", 0), ("push", 0), "CREATE", "POP"]
        fns = [Fn("setUp()", setup + list(self.setup_extra) + ["STOP"] + blobs)]
        if self.with_getters:
            for g in GETTERS:
                v = self.filters.get(g, [])
                blob = enc_fuzz_selectors(v) if g.endswith("Selectors") else enc_address_array(v)
                fns.append(const_getter(g, blob))
        for inv in self.invs:
            fns.append(Fn(f"{inv.name}()", inv.body))
        return TestContract(self.name, fns), others

    # ---- the Foundry rules for who may be called (written from Foundry, not from halmos).
    # Source: foundry `crates/evm/evm/src/executors/invariant/mod.rs` (`select_contracts_and_senders`, `select_selectors`,
    # `add_address_with_functions`) and the "Invariant targets" section of the Foundry book:
    #   1. candidate contracts = the contracts deployed during setUp (never the test contract itself unless it is listed in
    #      targetContracts), kept when (targetContracts is empty or lists it) and excludeContracts does not list it;
    #   2. AFTER that filtering, every targetSelectors entry with a NON-EMPTY selector list adds its contract to the targets
    #      (`Entry::Vacant => insert`) — so a contract that excludeContracts removed comes back, restricted to those selectors
    #      ("targetSelector overrides excludeContract"); an entry with an empty list is skipped ("Do not add address in target
    #      contracts if no function selected");
    #   3. functions of a target: the targeted selectors if there are any, otherwise every state-changing (non view/pure)
    #      function minus the excluded selectors (targetSelector wins over excludeSelector for the same contract);
    #   4. senders: targetSenders minus excludeSenders if that is non-empty, otherwise anyone not in excludeSenders.
    def _sel_maps(self):
        f = self.filters
        tsel, xsel = {}, {}
        for a, sels in f.get("targetSelectors", []):
            tsel.setdefault(a, []).extend(sels)
        for a, sels in f.get("excludeSelectors", []):
            xsel.setdefault(a, []).extend(sels)
        return tsel, xsel

    def targeted(self):
        """-> the targets (among the deployed contracts) the fuzzer calls into"""
        f = self.filters
        tsel, _ = self._sel_maps()
        tc, xc = f.get("targetContracts", []), f.get("excludeContracts", [])
        out = []
        for t in self.targets:
            selected = ((t.addr in tc) if tc else True) and t.addr not in xc
            if tsel.get(t.addr):
                selected = True
            if selected:
                out.append(t)
        return out

    def callable_of(self, t):
        tsel, xsel = self._sel_maps()
        out = []
        for fn in t.fns:
            sel = asm.selector(fn.canon)
            if tsel.get(t.addr):
                if sel in tsel[t.addr]:
                    out.append(fn)
            elif xsel.get(t.addr):
                if sel not in xsel[t.addr]:
                    out.append(fn)
            elif fn.mutability not in ("view", "pure"):
                out.append(fn)
        return out

    def callable(self):
        """-> list of (target, TFn) the fuzzer may call"""
        return [(t, fn) for t in self.targeted() for fn in self.callable_of(t)]

    def sender_domain(self):
        f = self.filters
        ts, xs = f.get("targetSenders", []), f.get("excludeSenders", [])
        eff = [s for s in ts if s not in xs]
        if eff:
            return eff
        return [s for s in self.senders if s not in xs]

    def moves(self):
        """-> list of (label, sender, addr, calldata, tsdelta) over the brute-force domains"""
        out = []
        for t, fn in self.callable():
            sel = asm.selector(fn.canon).to_bytes(4, "big")
            if fn.calldatas is not None:
                encs = [(f"#{j}:{len(e)}B", e) for j, e in enumerate(fn.calldatas)]
            else:
                encs = [(list(args), b"".join((a % W).to_bytes(32, "big") for a in args)) for args in itertools.product(*fn.domains)]
            for lab, enc in encs:
                cd = sel + enc
                for s in self.sender_domain():
                    for dt in self.tsdeltas:
                        out.append((f"{t.name}.{fn.canon}{lab}@{s:x}+{dt}", s, t.addr, cd, dt))
        return out


def explore_lines(batch: "RefBatch", scn: Scenario, desc: TestContract, depth: int, init=()):
    """world (+ initial storage values `init` = [(addr, slot, value)]) + registered moves/probes + explore;
    -> (index of the explore reply, moves, probe names)"""
    batch.world(desc)
    for a, sl, v in init:
        batch.add(f"storage {hx(a)} {hx(sl)} {hx(v)}")
    batch.add("clearmoves")
    moves = scn.moves()
    for _lab, s, a, cd, dt in moves:
        batch.add(f"move {hx(s)} {hx(a)} 0 {hb(cd)} {hx(dt)}")
    names = []
    for inv in scn.invs:
        sel = asm.selector(f"{inv.name}()").to_bytes(4, "big")
        batch.add(f"probe {hx(FOUNDRY_CALLER)} {hx(FOUNDRY_TEST)} {hb(sel)}")
        names.append(inv.name)
    return batch.add(f"explore {hx(depth)} {hx(FUEL)}"), moves, names


@dataclass
class RefState:
    witness: list      # move indices
    ts: int
    num: int
    storage: str
    probes: list       # [(halt, data bytes, flag)]
    panicking_moves: dict  # move idx -> revert data


def parse_explore(reply: str):
    """-> list (per depth) of [RefState]"""
    levels = []
    for lv in reply.split("/"):
        states = []
        for s in (lv.split(";") if lv else []):
            wit, ts, num, st, ps, pm = s.split("|")
            probes = []
            for p in (ps.split(",") if ps != "-" else []):
                h, d, fl = p.split(":")
                probes.append((h, b"" if d == "-" else bytes.fromhex(d), fl == "1"))
            pmd = {}
            for e in (pm.split(",") if pm != "-" else []):
                i, d = e.split(":")
                pmd[int(i)] = bytes.fromhex(d)
            states.append(RefState([int(x) for x in wit.split(".")] if wit else [], int(ts, 16), int(num, 16), st, probes, pmd))
        levels.append(states)
    return levels


def probe_fails(p, panic_codes=(1,)) -> bool:
    h, d, fl = p
    if h == "revert" and len(d) == 36 and d[:4] == asm.PANIC_SELECTOR.to_bytes(4, "big"):
        code = int.from_bytes(d[4:], "big")
        return (not panic_codes) or code in panic_codes
    return h == "success" and fl
