"""Differential engine: the real SEVM (symbolic) against the Lean reference EVM (concrete), pointwise.

Shared by C01 (every reported path is a real behaviour), C02 (no feasible behaviour dropped),
C09 (calls atomic / right context), C10 (incomplete exploration reported).

A *scenario* is a set of contracts (address -> bytecode), the entry contract, and the shape of the symbolic
transaction (selector + k symbolic calldata words, symbolic caller / origin / value / initial balances).
"""
from __future__ import annotations

import logging
import re
from dataclasses import dataclass, field

from .impl import use_repo

use_repo()

import z3  # noqa: E402
from z3 import (Array, BitVec, BitVecSort, BitVecVal, is_app, is_const, is_eq)  # noqa: E402

from halmos.bitvec import HalmosBitVec as BV  # noqa: E402
from halmos.bytevec import ByteVec  # noqa: E402
from halmos.contract import Contract  # noqa: E402
from halmos.exceptions import EvmException, HalmosException, Revert  # noqa: E402
from halmos.sevm import con_addr  # noqa: E402

from . import sevmdrv  # noqa: E402
from .zeval import Arr, Evaluator, Unknown, keccak  # noqa: E402

MAIN = 0x1000
W = 1 << 256
A160 = 1 << 160
WATCHDOG_S = 15.0
ALLOC_BASE = 0xAAAA0001   # halmos: magic_address + new_address_offset; the n-th created address is base + n

# how halmos' exception classes map onto the reference EVM's halt kinds
ERR_TO_HALT = {
    "Revert": "revert",
    "InvalidOpcode": "invalidOpcode",
    "InvalidJumpDestError": "invalidJump",
    "StackUnderflowError": "stackUnderflow",
    "OutOfGasError": "outOfGas",
    "OutOfBoundsRead": "outOfBoundsRead",
    "WriteInStaticContext": "writeInStatic",
    "MessageDepthLimitError": "depthLimit",
}


@dataclass
class Scenario:
    contracts: dict            # address(int) -> bytes
    nargs: int = 2             # symbolic 32-byte calldata words after the selector
    selector: bytes = b"\x12\x34\x56\x78"
    name: str = ""
    static: bool = False
    meta: dict = field(default_factory=dict)
    # symbolic immutables: address -> byte offsets of 32-byte holes in that account's code (e.g. the operand of a PUSH32);
    # hole j (in the order of `holes()`) is the word symbol a{nargs+j}, so an input carries nargs + len(holes) words:
    # the first nargs are calldata, the others are what the deployed code holds at the holes
    immutables: dict = field(default_factory=dict)

    def main_code(self):
        return self.contracts[MAIN]

    def holes(self):
        return [(a, off) for a in sorted(self.immutables) for off in sorted(self.immutables[a])]

    @property
    def nwords(self):
        return self.nargs + len(self.holes())

    def filled(self, words):
        """the concrete code of every account when the hole words are `words[nargs:]`"""
        out = dict(self.contracts)
        for j, (a, off) in enumerate(self.holes()):
            c = bytearray(out[a])
            c[off:off + 32] = (words[self.nargs + j] % W).to_bytes(32, "big")
            out[a] = bytes(c)
        return out

    def symbolic_code(self, a):
        """bytes, or a ByteVec concrete | symbolic word | concrete ... for an account with holes"""
        offs = sorted(self.immutables.get(a, ()))
        if not offs:
            return self.contracts[a]
        idx = {h: j for j, h in enumerate(self.holes())}
        code, bv, pos = self.contracts[a], ByteVec(), 0
        for off in offs:
            if off > pos:
                bv.append(code[pos:off])
            bv.append(BV(BitVec(f"a{self.nargs + idx[(a, off)]}", 256), size=256))
            pos = off + 32
        if pos < len(code):
            bv.append(code[pos:])
        return Contract(bv)


@dataclass
class PathRes:
    kind: str                  # success | revert | <halt kind> | stuck:<Exception> | fail-cheatcode
    data: object               # ByteVec | None
    conds: list
    ex: object
    error: object = None


@dataclass
class SymRun:
    paths: list
    bounded_loops: list
    warnings: list
    escaped: str | None = None  # exception escaping SEVM.run, if any
    sevm: object = None
    symbolic_storage: bool = False


class _Capture(logging.Handler):
    def __init__(self):
        super().__init__(level=logging.WARNING)
        self.records = []

    def emit(self, record):
        self.records.append(record.getMessage())


def symbolic_run(scn: Scenario, **cfg) -> SymRun:
    cfg = dict(cfg)
    symbolic_storage = cfg.pop("symbolic_storage", False)
    sevm, args = sevmdrv.mk_sevm(**cfg)
    cd = ByteVec()
    if scn.selector:
        cd.append(scn.selector)
    for i in range(scn.nargs):
        cd.append(BV(BitVec(f"a{i}", 256), size=256))
    extra = {con_addr(a): scn.symbolic_code(a) for a in scn.contracts if a != MAIN}
    ex = sevmdrv.mk_ex(sevm, args, scn.symbolic_code(MAIN), calldata=cd, this=con_addr(MAIN), extra_code=extra,
                       is_static=scn.static)
    if symbolic_storage:
        # what svm.enableSymbolicStorage / vm.setArbitraryStorage do: the account's initial storage is arbitrary
        for a in scn.contracts:
            ex.storage[con_addr(a)].symbolic = True
    cap = _Capture()
    loggers = [logging.getLogger("halmos"), logging.getLogger("halmos.unique")]
    for lg in loggers:
        lg.addHandler(cap)
    paths, escaped = [], None
    import signal

    armed = [True]

    def _alarm(signum, frame):
        if armed[0]:
            raise TimeoutError("symbolic run exceeded the harness watchdog")

    old_handler = signal.signal(signal.SIGALRM, _alarm)
    signal.setitimer(signal.ITIMER_REAL, WATCHDOG_S, 0.5)   # repeating: halmos may swallow the first exception
    try:
        for e in sevm.run(ex):
            out = e.context.output
            err = out.error
            if err is None and out.data is not None:
                kind = "success"
            elif err is None:
                kind = "stuck:NoOutput"
            elif isinstance(err, Revert):
                kind = "revert"
            elif isinstance(err, HalmosException):
                kind = "stuck:" + type(err).__name__
            elif isinstance(err, EvmException):
                kind = ERR_TO_HALT.get(type(err).__name__, "evm:" + type(err).__name__)
            else:
                kind = "other:" + type(err).__name__
            paths.append(PathRes(kind, out.data, list(e.path.conditions), e, err))
    except BaseException as exc:  # noqa: BLE001
        armed[0] = False   # the repeating timer must not fire again between here and the disarm below
        escaped = f"{type(exc).__name__}: {exc}"
        if "exceeded the harness watchdog" in escaped and not escaped.startswith("TimeoutError"):
            # the alarm went off inside a z3 callback: ctypes re-raises it wrapped (ArgumentError: argument 1: TimeoutError: …)
            escaped = "TimeoutError: symbolic run exceeded the harness watchdog (raised inside a native callback)"
    finally:
        armed[0] = False
        signal.setitimer(signal.ITIMER_REAL, 0)
        signal.signal(signal.SIGALRM, old_handler)
        for lg in loggers:
            lg.removeHandler(cap)
    return SymRun(paths, list(sevm.logs.bounded_loops), cap.records, escaped, sevm, symbolic_storage)


# --------------------------------------------------------------------------------------------------
# concrete inputs and evaluation of symbolic results under them
# --------------------------------------------------------------------------------------------------

@dataclass
class Inputs:
    args: list                 # calldata words
    caller: int
    origin: int
    value: int
    balances: dict             # address -> initial balance
    baldefault: int = 0
    storage: dict = field(default_factory=dict)   # (address, scalar slot) -> initial value (symbolic-storage scenarios)

    def env(self):
        e = {f"a{i}": v for i, v in enumerate(self.args)}
        e["msg_sender"] = self.caller
        e["tx_origin"] = self.origin
        e["msg_value"] = self.value
        bal = dict(self.balances)
        dflt = self.baldefault
        e["balance_0"] = Arr(lambda idx, d=dflt: d, {(k,): v for k, v in bal.items()})
        per_acct = {}
        for (a, slot), v in self.storage.items():
            e[storage_symbol(a, slot)] = v                       # solidity layout: one constant per scalar slot
            per_acct.setdefault(a, {})[(slot,)] = v
        for a, m in per_acct.items():
            e[f"storage_0x{a:040x}_256_00"] = Arr(lambda idx: 0, m)   # generic layout: one array over 256-bit locations
        return e

    def key(self):
        return (tuple(self.args), self.caller, self.origin, self.value, tuple(sorted(self.balances.items())), self.baldefault,
                tuple(sorted(self.storage.items())))


def storage_symbol(addr: int, slot: int) -> str:
    """name of the initial value of a scalar slot under symbolic storage (SolidityStorage.init: storage_<addr>_<slot>_0_0_00)"""
    return f"storage_0x{addr:040x}_{slot}_0_0_00"


SCALAR_STORAGE = re.compile(r"^storage_(0x[0-9a-f]+)_(\d+)_0_0_00$")
INPUT_NAMES = re.compile(r"^(a\d+|msg_sender|tx_origin|msg_value|balance_0)$")
EMPTY_ARRAY = re.compile(r"^(storage_.+|balance)_00$")


def _default_uf(name, args, sort):
    if not args:
        if name == "f_sha3_0":
            return keccak(b"")
        if EMPTY_ARRAY.match(name) and sort.kind() == z3.Z3_ARRAY_SORT:
            return Arr(lambda idx: 0)
        if SCALAR_STORAGE.match(name) and sort.kind() == z3.Z3_BV_SORT:
            return 0   # initial value of a scalar slot the inputs do not mention
    raise Unknown(name)


def _mentions(t, pred, seen=None):
    seen = seen if seen is not None else set()
    todo = [t]
    while todo:
        x = todo.pop()
        i = x.get_id()
        if i in seen:
            continue
        seen.add(i)
        if is_app(x):
            if pred(x.decl().name()):
                return True
            todo.extend(x.children())
    return False


class PathEval:
    """decide `inputs ⊨ path` and evaluate terms of that path. Auxiliary symbols that halmos introduces with a defining
    equation (balance_N = Store(…), storage arrays, call_exit_code_…) are bound from those equations; the injectivity
    witnesses f_inv_sha3_* are assumed to exist (HashIdeal)."""

    def __init__(self, inputs: Inputs):
        self.env = inputs.env()
        self.ev = Evaluator(self.env, default_uf=_default_uf)
        self.assumed = 0

    def _try_bind(self, c):
        if not is_eq(c):
            return False
        lhs, rhs = c.children()
        for l, r in ((lhs, rhs), (rhs, lhs)):
            if is_const(l) and l.decl().kind() == z3.Z3_OP_UNINTERPRETED:
                n = l.decl().name()
                if n not in self.env and not INPUT_NAMES.match(n) and not EMPTY_ARRAY.match(n) and n != "f_sha3_0":
                    try:
                        self.env[n] = self.ev(r)
                    except Unknown:
                        continue
                    return True
        return False

    def satisfies(self, conds):
        for c in conds:
            if _mentions(c, lambda n: n.startswith("f_inv_sha3")):
                self.assumed += 1
                continue
            if self._try_bind(c):
                continue
            if not self.ev(c):
                return False
        return True

    def bytes_of(self, data):
        """ByteVec | None -> bytes under the inputs"""
        if data is None:
            return None
        n = len(data)
        if n == 0:
            return b""
        u = data.unwrap()
        if isinstance(u, bytes):
            return u
        return int(self.ev(u)).to_bytes(n, "big")

    def word(self, t):
        if isinstance(t, BV):
            t = t.value
        if isinstance(t, bool):
            return int(t)
        if isinstance(t, int):
            return t
        return int(self.ev(t))


# --------------------------------------------------------------------------------------------------
# the reference EVM (Lean driver)
# --------------------------------------------------------------------------------------------------

def hx(n):
    return f"{n:x}"


def hb(b: bytes):
    return b.hex() if b else "-"


def lean_requests(scn: Scenario, inp: Inputs, fuel=20000, memlimit=1 << 20):
    lines = ["reset", f"param origin {hx(inp.origin)}", f"param allocbase {hx(ALLOC_BASE)}", f"param memlimit {hx(memlimit)}",
             f"baldefault {hx(inp.baldefault)}"]
    for a, c in scn.filled(inp.args).items():
        lines.append(f"code {hx(a)} {hb(c)}")
    for a, v in inp.balances.items():
        lines.append(f"balance {hx(a)} {hx(v)}")
    for (a, slot), v in inp.storage.items():
        if v:
            lines.append(f"storage {hx(a)} {hx(slot)} {hx(v)}")
    cd = scn.selector + b"".join(v.to_bytes(32, "big") for v in inp.args[:scn.nargs])
    lines.append(f"exec {hx(inp.caller)} {hx(MAIN)} {hx(inp.value)} {hb(cd)} {hx(fuel)} {1 if scn.static else 0}")
    return lines


@dataclass
class Concrete:
    halt: str
    data: bytes
    storage: dict      # (addr, slot) -> value (non-zero only)
    transient: dict
    balances: dict     # addr -> balance (touched ones)
    codes: dict
    logs: list
    created: int
    raw: str


def parse_concrete(reply: str) -> Concrete:
    f = dict(tok.split("=", 1) for tok in reply.split(" "))

    def kv(s):
        if s == "-":
            return {}
        out = {}
        for e in s.split(","):
            k, v = e.rsplit("=", 1)
            if ":" in k:
                a, sl = k.split(":")
                out[(int(a, 16), int(sl, 16))] = int(v, 16)
            else:
                out[int(k, 16)] = v
        return out

    codes = {a: (b"" if v == "-" else bytes.fromhex(v)) for a, v in kv(f.get("codes", "-")).items()}
    bal = {a: int(v, 16) for a, v in kv(f.get("balances", "-")).items()}
    logs = [] if f.get("logs", "-") == "-" else f["logs"].split(",")
    data = b"" if f.get("data", "-") == "-" else bytes.fromhex(f["data"])
    return Concrete(f["halt"], data, kv(f.get("storage", "-")), kv(f.get("transient", "-")), bal, codes, logs,
                    int(f.get("created", "0")), reply)


def run_concrete_batch(ctx, jobs):
    """jobs: list of (scn, inputs) -> list[Concrete]"""
    lines, idx = [], []
    for scn, inp in jobs:
        req = lean_requests(scn, inp)
        lines += req
        idx.append(len(lines) - 1)
    replies = ctx.lean("Evm").ask(lines)
    return [parse_concrete(replies[i]) for i in idx]


# --------------------------------------------------------------------------------------------------
# inputs: random / boundary / solver-found (supporting use of z3)
# --------------------------------------------------------------------------------------------------

BOUNDARY = [0, 1, 2, 3, 4, 5, 31, 32, 33, 255, 256, W - 1, W - 2, 1 << 255, (1 << 255) - 1, 1 << 128, (1 << 128) - 1,
            (1 << 160) - 1, 0x1000, 0x2000, 0x2001, ALLOC_BASE, ALLOC_BASE + 1]   # incl. the first addresses CREATE allocates


def random_inputs(rng, scn: Scenario, pool=None) -> Inputs:
    pool = pool or BOUNDARY

    def word():
        k = rng.random()
        if k < 0.55:
            return rng.choice(pool) % W
        if k < 0.75:
            return rng.randrange(16)
        if k < 0.9:
            return rng.randrange(W)
        return (1 << rng.randrange(256)) % W

    addrs = list(scn.contracts) + [0x2222, 0xCAFE]
    caller = rng.choice([0xCAFE, 0xCAFE, rng.randrange(A160), rng.choice(addrs)])
    origin = rng.choice([caller, 0xBEEF, rng.randrange(A160)])
    bal = {}
    for a in set(addrs + [caller]):
        if rng.random() < 0.7:
            bal[a] = rng.choice([0, 1, 5, 100, 10**18, (1 << 120) - 1, rng.randrange(1 << 64)])
    value = rng.choice([0, 0, 0, 1, 5, rng.randrange(1 << 64)])
    if rng.random() < 0.12:
        # boundary of the documented balance assumption (balance <= 2^128 inclusive): one account holds exactly
        # MAX_ETH (or one less), everything else is empty, so the total supply stays within the assumption
        rich = rng.choice(sorted(set(addrs + [caller])))
        bal = {a: 0 for a in set(addrs + [caller])}
        bal[rich] = rng.choice([1 << 128, (1 << 128) - 1])
        value = rng.choice([0, 0, 1, value]) if rich == caller else 0
        return Inputs([word() for _ in range(scn.nwords)], caller, origin, value, bal, 0)
    return Inputs([word() for _ in range(scn.nwords)], caller, origin, value, bal, rng.choice([0, 0, 7]))


def input_vars(scn: Scenario):
    vs = {f"a{i}": BitVec(f"a{i}", 256) for i in range(scn.nwords)}
    vs["msg_sender"] = BitVec("msg_sender", 160)
    vs["tx_origin"] = BitVec("tx_origin", 160)
    vs["msg_value"] = BitVec("msg_value", 256)
    return vs


def model_to_inputs(m, scn: Scenario, rng=None) -> Inputs:
    vs = input_vars(scn)

    def val(name, default=0):
        v = m.eval(vs[name], model_completion=True)
        return v.as_long() if z3.is_bv_value(v) else default

    bal0 = Array("balance_0", BitVecSort(160), BitVecSort(256))
    interp = m[bal0]
    balances, dflt = {}, 0
    if interp is not None:
        try:
            a = m.eval(bal0, model_completion=True)
            # unfold Store chains / K / as-array
            cur = a
            while z3.is_store(cur):
                k, v = cur.arg(1), cur.arg(2)
                kk = k.as_long()
                if kk not in balances:
                    balances[kk] = v.as_long()
                cur = cur.arg(0)
            if z3.is_K(cur):
                dflt = cur.arg(0).as_long()
            elif z3.is_as_array(cur):
                fi = m[z3.get_as_array_func(cur)]
                for i in range(fi.num_entries()):
                    e = fi.entry(i)
                    balances.setdefault(e.arg_value(0).as_long(), e.value().as_long())
                dflt = fi.else_value().as_long() if z3.is_bv_value(fi.else_value()) else 0
        except Exception:  # noqa: BLE001
            pass
    storage = {}
    for d in m.decls():
        mm = SCALAR_STORAGE.match(d.name())
        if mm and d.arity() == 0:
            v = m[d]
            if z3.is_bv_value(v):
                storage[(int(mm.group(1), 16), int(mm.group(2)))] = v.as_long()
    return Inputs([val(f"a{i}") for i in range(scn.nwords)], val("msg_sender"), val("tx_origin"), val("msg_value"), balances, dflt, storage)


def solve_inputs(conds, scn, extra=(), timeout_ms=2000, n=1):
    """models of And(conds) as Inputs (supporting use of z3; each is re-validated by PathEval)"""
    s = z3.Solver()
    s.set("timeout", timeout_ms)
    s.set("rlimit", 3_000_000)  # deterministic resource bound: the wall-clock timeout is not honoured inside preprocessing
    for c in conds:
        s.add(c)
    for c in extra:
        s.add(c)
    out = []
    vs = input_vars(scn)
    import threading

    for _ in range(n):
        # z3 does not always honour its own timeout (preprocessing of wide terms): interrupt it from a timer thread
        timer = threading.Timer(timeout_ms / 1000 + 0.5, z3.main_ctx().interrupt)
        timer.start()
        import os, time as _time
        _t0 = _time.time()
        try:
            res = s.check()
        except z3.Z3Exception:
            res = z3.unknown
        finally:
            timer.cancel()
        if os.environ.get("VERIF_DUMP_SLOW") and _time.time() - _t0 > 3:
            _d = _time.time() - _t0
            s2 = z3.Solver()
            s2.add(s.assertions())
            _t1 = _time.time()
            r2 = s2.check()
            s3 = z3.SolverFor("QF_AUFBV")
            s3.add(s.assertions())
            _t2 = _time.time()
            r3 = s3.check()
            open(os.environ["VERIF_DUMP_SLOW"], "a").write(f"slow {_d:.1f}s res={res} n={len(s.assertions())}; fresh default solver {r2} {_t2-_t1:.1f}s; QF_AUFBV {r3} {_time.time()-_t2:.1f}s\n")
        if res != z3.sat:
            break
        m = s.model()
        out.append(model_to_inputs(m, scn))
        # block this assignment of the word inputs
        blk = [v != m.eval(v, model_completion=True) for v in vs.values()]
        s.add(z3.Or(blk))
    return out
