"""Import the real halmos from $HALMOS_REPO/src (default /repo/src) — call `use_repo()` before `import halmos`."""
import sys

from .runner import REPO


def use_repo():
    src = str(REPO / "src")
    if sys.path[0] != src:
        sys.path.insert(0, src)
    import halmos  # noqa: F401

    got = getattr(halmos, "__file__", None) or list(halmos.__path__)[0]
    assert str(got).startswith(src), f"halmos imported from {got}, expected {src}"
    return halmos
