"""Structured generator of EVM programs (mostly valid) + a malformed stream, for the SEVM-vs-EVM differential runs.

Everything random comes from the `rng` passed in. Programs are item lists for vlib.asm.assemble.
Memory layout used by generated code: result slots at 0x00..0xbf (6 words), loop counters at 0xc0.., call
argument / return buffers at 0x100.., code blobs are copied to 0x200...
"""
from __future__ import annotations

from . import asm
from .evmdiff import MAIN, Scenario

W = 1 << 256
CONSTS = [0, 1, 2, 3, 5, 7, 31, 32, 33, 255, 256, 0xFFFF, 1 << 64, (1 << 128) - 1, 1 << 128, 1 << 255, (1 << 255) - 1,
          W - 1, W - 2, 0x1000, 0x2000, 0xCAFE]
BIN = ["ADD", "MUL", "SUB", "DIV", "SDIV", "MOD", "SMOD", "LT", "GT", "SLT", "SGT", "EQ", "AND", "OR", "XOR", "BYTE",
       "SHL", "SHR", "SAR", "SIGNEXTEND", "EXP"]
UN = ["ISZERO", "NOT"]
TER = ["ADDMOD", "MULMOD"]
ENV0 = ["CALLER", "CALLVALUE", "ORIGIN", "ADDRESS", "SELFBALANCE", "CALLDATASIZE", "CODESIZE", "RETURNDATASIZE",
        "TIMESTAMP", "NUMBER", "CHAINID", "BASEFEE", "COINBASE", "GASLIMIT", "DIFFICULTY", "PC"]


class Gen:
    def __init__(self, rng, nargs=2, callees=(), features=None, consts=None, depth_budget=3):
        self.rng = rng
        self.nargs = nargs
        self.callees = list(callees)          # addresses of contracts that exist
        self.value_callees = set()            # callees that (transitively) make value-bearing calls
        self.uses_value = False
        self.f = features or {}
        self.consts = list(consts or CONSTS)
        self.lbl = 0
        self.blobs = []                       # (mark, bytes) appended after the code
        self.hist = {}
        self.depth_budget = depth_budget

    def count(self, k):
        self.hist[k] = self.hist.get(k, 0) + 1

    def fresh(self, p="L"):
        self.lbl += 1
        return f"{p}{self.lbl}"

    # ---- expressions (leave exactly one word) -------------------------------------------------
    def const(self):
        r = self.rng
        k = r.random()
        if k < 0.7:
            return [("push", r.choice(self.consts) % W)]
        if k < 0.85:
            return [("push", r.randrange(256))]
        return [("push", r.randrange(W))]

    def arg(self, i=None):
        if self.nargs == 0:
            return self.const()
        i = self.rng.randrange(self.nargs) if i is None else i
        self.count("leaf:calldata")
        return [("push", 4 + 32 * i), "CALLDATALOAD"]

    def leaf(self):
        r = self.rng
        k = r.random()
        if k < 0.35:
            return self.arg()
        if k < 0.6:
            return self.const()
        if k < 0.72:
            op = r.choice(ENV0)
            self.count("leaf:" + op)
            return [op]
        if k < 0.8 and self.f.get("storage", True):
            self.count("leaf:SLOAD")
            return self.slot() + ["SLOAD"]
        if k < 0.86:
            self.count("leaf:MLOAD")
            return [("push", 32 * r.randrange(6)), "MLOAD"]
        if k < 0.9 and self.f.get("balance", True):
            self.count("leaf:BALANCE")
            who = r.choice([["CALLER"], ["ADDRESS"], [("push", r.choice(self.callees + [0x2222]))]])
            return who + ["BALANCE"]
        if k < 0.94 and self.f.get("sha3", True):
            self.count("leaf:SHA3")
            return [("push", r.choice([0, 32, 64])), ("push", r.choice([0, 32])), "SHA3"]
        if k < 0.97 and self.f.get("tstorage", True):
            self.count("leaf:TLOAD")
            return [("push", r.randrange(3)), "TLOAD"]
        if self.callees and self.f.get("extcode", True):
            self.count("leaf:EXTCODESIZE")
            if self.f.get("symbolic_target", False) and r.random() < 0.4:
                self.count("leaf:EXTCODESIZE-symbolic-account")
                return self.arg() + ["EXTCODESIZE"]      # alias resolution over every account with code
            return [("push", r.choice(self.callees + [0x2222])), r.choice(["EXTCODESIZE", "EXTCODEHASH"])]
        return self.const()

    def slot(self):
        """a storage location expression: small scalar, mapping-style hash, or array-style hash + offset"""
        r = self.rng
        k = r.random()
        if k < 0.55 or not self.f.get("sha3", True):
            return [("push", r.randrange(4))]
        if k < 0.8:
            # keccak(key . base) with key from calldata or constant (mapping)
            key = self.arg() if r.random() < 0.6 else self.const()
            self.count("slot:mapping")
            return key + [("push", 0x100), "MSTORE", ("push", r.randrange(3)), ("push", 0x120), "MSTORE",
                          ("push", 64), ("push", 0x100), "SHA3"]
        # keccak(base) + i (dynamic array)
        self.count("slot:array")
        idx = [("push", r.randrange(4))] if r.random() < 0.5 else self.arg() + [("push", 3), "AND"]
        return [("push", r.randrange(3)), ("push", 0x100), "MSTORE", ("push", 32), ("push", 0x100), "SHA3"] + idx + ["ADD"]

    def expr(self, depth=None):
        r = self.rng
        depth = self.depth_budget if depth is None else depth
        if depth <= 0 or r.random() < 0.3:
            return self.leaf()
        k = r.random()
        if k < 0.15:
            op = r.choice(UN)
            self.count("op:" + op)
            return self.expr(depth - 1) + [op]
        if k < 0.22:
            op = r.choice(TER)
            self.count("op:" + op)
            return self.expr(depth - 1) + self.expr(depth - 1) + self.expr(depth - 1) + [op]
        op = r.choice(BIN)
        self.count("op:" + op)
        a, b = self.expr(depth - 1), self.expr(depth - 1)
        if op == "EXP":
            b = [("push", r.choice([0, 1, 2, 3, 5, 255, 256]))] if r.random() < 0.8 else b
            return b + a + [op]           # EXP pops base first
        if op in ("SHL", "SHR", "SAR", "BYTE", "SIGNEXTEND") and r.random() < 0.7:
            a = [("push", r.choice([0, 1, 7, 8, 30, 31, 32, 255, 256]))]
            return b + a + [op]
        return a + b + [op]

    def cond(self):
        r = self.rng
        k = r.random()
        if k < 0.5:
            # comparison of an argument against a constant: both outcomes feasible, found by the solver only
            op = r.choice(["EQ", "LT", "GT", "SLT", "SGT"])
            return self.const() + self.arg() + [op]
        if k < 0.7:
            return self.arg() + [("push", r.choice([1, 3, 0xFF])), "AND"]
        return self.expr(2)

    # ---- statements (stack neutral) ---------------------------------------------------------
    def stmt(self, depth):
        r = self.rng
        kinds = ["mstore"] * 4 + ["sstore"] * 3 + ["if"] * 3 + ["loop", "log", "copy", "tstore", "mstore8", "pop"]
        if self.nargs:
            kinds += ["pinned-copy"]
        if self.callees or self.f.get("call_missing", True):
            kinds += ["call"] * 3
        if self.f.get("create", False):
            kinds += ["create"]
        if depth <= 0:
            kinds = [k for k in kinds if k not in ("if", "loop")]
        k = r.choice(kinds)
        self.count("stmt:" + k)
        if k == "mstore":
            return self.expr() + [("push", 32 * r.randrange(6)), "MSTORE"]
        if k == "mstore8":
            return self.expr(1) + [("push", r.randrange(0xC0)), "MSTORE8"]
        if k == "pop":
            return self.expr(2) + ["POP"]
        if k == "sstore":
            return self.expr(2) + self.slot() + ["SSTORE"]
        if k == "tstore":
            return self.expr(1) + [("push", r.randrange(3)), "TSTORE"]
        if k == "if":
            els, end = self.fresh("else"), self.fresh("end")
            then = self.block(depth - 1, r.randrange(1, 3))
            other = self.block(depth - 1, r.randrange(0, 2))
            return self.cond() + ["ISZERO", ("ref", els), "JUMPI"] + then + [("ref", end), "JUMP", ("label", els)] + other + [("label", end)]
        if k == "loop":
            top, end = self.fresh("loop"), self.fresh("lend")
            cnt = 0xC0 + 32 * r.randrange(2)
            if r.random() < 0.5:
                n = [("push", r.randrange(0, 5))]
                self.count("loop:concrete")
            else:
                n = self.arg() + [("push", r.choice([1, 3, 7])), "AND"]
                self.count("loop:symbolic")
            body = self.block(0, r.randrange(1, 3))
            return (n + [("push", cnt), "MSTORE", ("label", top), ("push", cnt), "MLOAD", "ISZERO", ("ref", end), "JUMPI"] + body
                    + [("push", 1), ("push", cnt), "MLOAD", "SUB", ("push", cnt), "MSTORE", ("ref", top), "JUMP", ("label", end)])
        if k == "log":
            n = r.randrange(0, 3)
            topics = []
            for _ in range(n):
                topics += self.expr(1)
            return topics + [("push", r.choice([0, 32, 64])), ("push", r.choice([0, 32])), f"LOG{n}"]
        if k == "pinned-copy":
            # inside a branch that has learnt `a_i == c`, copy a window that covers only PART of that calldata word (and
            # windows straddling it): concretization of a partial view must keep the window
            i = r.randrange(self.nargs)
            c = r.choice([0, 1, 42, 0x1122334455667788, (1 << 256) - 1, r.randrange(1 << 256)])
            end = self.fresh("pend")
            base = 4 + 32 * i
            src = base + r.choice([0, 1, 8, 24, 28, 31]) - r.choice([0, 0, 0, 4])
            size = r.choice([1, 4, 8, 31, 32, 33, 40])
            dst = r.choice([0, 1, 32, 64])
            tail = [("push", r.choice([0, 32, 64])), "MLOAD", ("push", 0xA0), "MSTORE"] if r.random() < 0.5 else []
            return ([("push", c), ("push", base), "CALLDATALOAD", "EQ", "ISZERO", ("ref", end), "JUMPI",
                     ("push", size), ("push", max(src, 0)), ("push", dst), "CALLDATACOPY"] + tail + [("label", end)])
        if k == "copy":
            kind = r.choice(["CALLDATACOPY", "CODECOPY", "MCOPY", "RETURNDATACOPY"])
            self.count("copy:" + kind)
            size = r.choice([0, 1, 31, 32, 33, 64])
            src = r.choice([0, 1, 4, 32, 36, 100])
            dst = r.choice([0, 1, 32, 64, 100])
            if kind == "RETURNDATACOPY" and r.random() < 0.7:
                size, src = r.choice([0, 0, 1, 32]), 0
            if kind == "CODECOPY" and r.random() < 0.4:
                # a window that starts inside the code and runs past its end, over memory that is already non-zero: the
                # EVM writes zeros for the part beyond the code
                self.count("copy:CODECOPY-across-code-end")
                k = r.choice([0, 1, 4, 31, 32])
                size = r.choice([1, 8, 31, 32, 33, 64])
                dst = r.choice([0, 32, 64])
                dirty = [("push", (1 << 256) - 1), ("push", dst), "MSTORE", ("push", (1 << 256) - 1), ("push", dst + 32), "MSTORE"]
                return dirty + [("push", size), ("push", k), "CODESIZE", "SUB", ("push", dst), "CODECOPY"]
            return [("push", size), ("push", src), ("push", dst), kind]
        if k == "call":
            return self.call_stmt()
        if k == "create":
            return self.create_stmt()
        raise AssertionError(k)

    def call_stmt(self):
        r = self.rng
        kind = r.choice(["CALL", "CALL", "STATICCALL", "DELEGATECALL", "CALLCODE"])
        self.count("call:" + kind)
        tk = r.random()
        ok = [a for a in self.callees if kind != "STATICCALL" or self.f.get("value_in_static", True) or a not in self.value_callees]
        if ok and tk < 0.75:
            t = r.choice(ok)
            target = [("push", t)]
            if t in self.value_callees:
                self.uses_value = True
            self.count("target:known")
        elif tk < 0.85:
            target = [("push", r.choice([0x2222, 0x3333]))]
            self.count("target:missing")
        elif self.f.get("symbolic_target", False):
            target = self.arg()
            self.count("target:symbolic")
        else:
            target = [("push", MAIN)] if r.random() < 0.3 and self.f.get("reenter", False) else [("push", 0x2222)]
        value = []
        if kind in ("CALL", "CALLCODE"):
            vk = r.random()
            if kind == "CALLCODE" and not self.f.get("callcode_value", True):
                vk = 0.0
            if vk < 0.55:
                value = [("push", 0)]
            elif vk < 0.8:
                value = [("push", r.choice([1, 5, 100]))]
                self.count("value:concrete")
                self.uses_value = True
            else:
                value = self.arg() + [("push", 0xFF), "AND"]
                self.count("value:symbolic")
                self.uses_value = True
        # arguments: one or two words written at 0x100
        pre = self.expr(1) + [("push", 0x100), "MSTORE", self.expr(1), ("push", 0x120), "MSTORE"]
        arglen = r.choice([0, 4, 32, 64])
        retlen = r.choice([0, 32, 64, 33, 96])
        if r.random() < 0.6:
            # dirty output area: bytes beyond the returned data must survive the call
            pre = pre + [("push", W - 1), ("push", 0x140), "MSTORE", ("push", r.randrange(1, W)), ("push", 0x160), "MSTORE",
                         ("push", W - 1), ("push", 0x180), "MSTORE"]
            self.count("call:dirty-ret-area")
        items = pre + [("push", retlen), ("push", 0x140), ("push", arglen), ("push", 0x100)] + value + target + [("push", 0xFFFF), kind]
        # success flag and first returned word into result slots
        items += [("push", 32 * r.randrange(6)), "MSTORE"]
        if r.random() < 0.6:
            items += [("push", 0x140), "MLOAD", ("push", 32 * r.randrange(6)), "MSTORE"]
        if r.random() < 0.5:
            items += [("push", r.choice([0x141, 0x15f, 0x160, 0x161, 0x180])), "MLOAD", ("push", 32 * r.randrange(6)), "MSTORE"]
        if r.random() < 0.4:
            items += ["RETURNDATASIZE", ("push", 32 * r.randrange(6)), "MSTORE"]
        if r.random() < 0.35 and self.f.get("storage", True):
            # read-modify-write right after the call: continuations of different callee paths must not see each other's write
            sl = r.randrange(3)
            items += [("push", 1), ("push", sl), "SLOAD", "ADD", ("push", sl), "SSTORE", ("push", sl), "SLOAD", ("push", 32 * r.randrange(6)), "MSTORE"]
            self.count("call:post-write")
        return items

    def create_stmt(self):
        r = self.rng
        mark = self.fresh("blob")
        runtime = asm.assemble(Gen(r, 0, (), dict(self.f, create=False), self.consts, 1).callee_body(), push0=True)
        kind = r.random()
        if kind < 0.7:
            init = asm.creation_code(runtime)
            self.count("create:ok")
        elif kind < 0.85:
            init = asm.assemble([("push", 0x42), 0, "MSTORE", 32, 0, "REVERT"])
            self.count("create:revert")
        else:
            init = bytes([0xFE])
            self.count("create:invalid")
        self.blobs.append((mark, init))
        value = [("push", r.choice([0, 0, 1]))]
        op = "CREATE"
        items = [("push", len(init)), ("ref", mark), ("push", 0x200), "CODECOPY", ("push", len(init)), ("push", 0x200)] + value + [op]
        items += [("push", 32 * r.randrange(6)), "MSTORE", "RETURNDATASIZE", ("push", 32 * r.randrange(6)), "MSTORE"]
        return items

    def block(self, depth, n):
        out = []
        for _ in range(n):
            out += self.stmt(depth)
        return out

    def terminator(self):
        r = self.rng
        k = r.random()
        if k < 0.6:
            self.count("end:return")
            return [("push", 0xC0), ("push", 0), "RETURN"]
        if k < 0.75:
            self.count("end:revert")
            return [("push", r.choice([0, 32, 36, 64])), ("push", 0), "REVERT"]
        if k < 0.85:
            self.count("end:stop")
            return ["STOP"]
        if k < 0.92:
            self.count("end:invalid")
            return ["INVALID"]
        if k < 0.96:
            self.count("end:badjump")
            return [("push", r.choice([0, 1, 3, 0xFFFF])), "JUMP"]
        if k < 0.98:
            self.count("end:underflow")
            return ["POP", "POP", "POP"]
        if r.random() < 0.5:
            # a byte that is no instruction at all: the EVM halts exceptionally
            self.count("end:undefined-byte")
            return [("raw", bytes([r.choice([0x0C, 0x21, 0x4B, 0xB0, 0xEF])]))]
        # an instruction of the EVM that neither halmos nor the reference model implements: the exploration of this path
        # is incomplete and must be reported as such (stuck), never as a halt
        self.count("end:unmodelled-instruction")
        return [("push", r.randrange(3)), ("raw", bytes([r.choice([0x49, 0xFF])]))] if r.random() < 0.6 else [("raw", b"\x4a")]

    def finish(self, items):
        for mark, blob in self.blobs:
            items = items + ["STOP", ("mark", mark), ("raw", blob)]
        return items

    def program(self, nstmts=None):
        r = self.rng
        n = nstmts if nstmts is not None else r.randrange(2, 7)
        items = self.block(2, n)
        # an early exit guarded by a condition makes several outcome kinds reachable in one program
        if r.random() < 0.5:
            skip = self.fresh("skip")
            items = items + self.cond() + ["ISZERO", ("ref", skip), "JUMPI"] + self.terminator() + [("label", skip)]
        items += self.terminator()
        return self.finish(items)

    def callee_body(self):
        """a callee: reports its context / arguments, touches storage, ends in one of the outcome kinds"""
        r = self.rng
        items = []
        what = r.sample(["CALLER", "CALLVALUE", "ADDRESS", "ORIGIN", "CALLDATASIZE", "arg0", "SELFBALANCE", "sload"], k=2)
        for j, w in enumerate(what):
            if w == "arg0":
                items += [("push", 0), "CALLDATALOAD"]
            elif w == "sload":
                items += [("push", r.randrange(2)), "SLOAD"]
            else:
                items += [w]
            items += [("push", 32 * j), "MSTORE"]
        if r.random() < 0.7:
            items += [("push", r.randrange(1, 200))] if r.random() < 0.5 else [("push", 0), "CALLDATALOAD"]
            items += [("push", r.randrange(2)), "SSTORE"]
            self.count("callee:sstore")
        if r.random() < 0.3:
            items += [("push", 7), ("push", 1), "TSTORE"]
        if r.random() < 0.3:
            items += [("push", 32), ("push", 0), "LOG0"]
        if self.callees and r.random() < 0.5:
            # nested call
            kind = r.choice(["CALL", "STATICCALL", "DELEGATECALL"])
            v = r.choice([0, 0, 1]) if kind == "CALL" else 0
            value = [("push", v)] if kind == "CALL" else []
            ok = [a for a in self.callees if kind != "STATICCALL" or self.f.get("value_in_static", True) or a not in self.value_callees]
            t = r.choice(ok or self.callees)
            if not ok:
                kind, value = "DELEGATECALL", []
            if v or t in self.value_callees:
                self.uses_value = True
            items += [("push", 32), ("push", 0x40), ("push", 32), ("push", 0)] + value + [("push", t), ("push", 0xFFFF), kind,
                      ("push", 0x60), "MSTORE"]
            self.count("callee:nested-" + kind)
        if r.random() < 0.45:
            # the callee itself branches on its (symbolic) argument: several callee paths per call, each with its own outcome
            alt = self.fresh("calt")
            first = r.choice([[("push", r.choice([0, 32])), ("push", 0), "REVERT"], ["INVALID"],
                              [("push", 32), ("push", 0), "RETURN"], [("push", 9), ("push", 3), "SSTORE", ("push", 0), ("push", 0), "REVERT"]])
            cond = [("push", 0), "CALLDATALOAD", ("push", r.choice([1, 3, 0xFF])), "AND"] if r.random() < 0.7 else \
                   [("push", r.choice(self.consts) % W), ("push", 0), "CALLDATALOAD", r.choice(["LT", "EQ", "GT"])]
            items += cond + ["ISZERO", ("ref", alt), "JUMPI"] + first + [("label", alt)]
            self.count("callee:branching")
        k = r.random()
        if k < 0.55:
            items += [("push", r.choice([32, 64, 128, 1, 5, 31, 33])), ("push", 0), "RETURN"]
            self.count("callee:return")
        elif k < 0.75:
            items += [("push", r.choice([0, 32, 64, 1, 31])), ("push", 0), "REVERT"]
            self.count("callee:revert")
        elif k < 0.85:
            items += ["INVALID"]
            self.count("callee:invalid")
        elif k < 0.92:
            items += [("push", 64), ("push", 0), ("push", 0), "RETURNDATACOPY", "STOP"]
            self.count("callee:oob")
        else:
            items += ["STOP"]
            self.count("callee:stop")
        return items


def gen_scenario(rng, features=None, consts=None) -> tuple[Scenario, dict]:
    """a random scenario with a pool of callee contracts; returns (scenario, histogram)"""
    f = dict(features or {})
    nargs = rng.choice([1, 2, 2, 3])
    ncallees = rng.choice([0, 1, 2, 3]) if f.get("calls", True) else 0
    addrs = [0x2000 + i for i in range(ncallees)]
    contracts = {}
    hist = {}
    # callees may call callees with a higher index (acyclic)
    value_callees = set()
    for i, a in reversed(list(enumerate(addrs))):
        g = Gen(rng, 0, addrs[i + 1:], f, consts)
        g.value_callees = value_callees
        contracts[a] = asm.assemble(g.callee_body())
        if g.uses_value:
            value_callees = value_callees | {a}
        for k, v in g.hist.items():
            hist[k] = hist.get(k, 0) + v
    g = Gen(rng, nargs, addrs, f, consts)
    g.value_callees = value_callees
    contracts[MAIN] = asm.assemble(g.program())
    for k, v in g.hist.items():
        hist[k] = hist.get(k, 0) + v
    static = f.get("static", False) and rng.random() < 0.2 and (f.get("value_in_static", True) or not g.uses_value)
    return Scenario(contracts, nargs=nargs, static=static), hist


def gen_malformed(rng) -> Scenario:
    """the malformed stream: random bytes, truncated PUSH, underflow, bad jumps, huge offsets, undefined opcodes"""
    k = rng.randrange(6)
    if k == 0:
        code = bytes(rng.randrange(256) for _ in range(rng.randrange(1, 24)))
    elif k == 1:
        code = asm.assemble([("push", 4), "CALLDATALOAD"]) + bytes([0x7F]) + bytes(rng.randrange(256) for _ in range(rng.randrange(0, 10)))
    elif k == 2:
        code = bytes([rng.choice([0x01, 0x10, 0x50, 0x52, 0x55, 0x80, 0x90, 0xA1, 0xF3])])
    elif k == 3:
        code = asm.assemble([("push", rng.choice([2, 5, 0xFFFF, 1 << 200])), rng.choice(["JUMP", "JUMP"]), "JUMPDEST", "STOP"])
    elif k == 4:
        code = asm.assemble([("push", 1), ("push", rng.choice([(1 << 20) + 1, (1 << 20) + 33, 1 << 64, W - 1, (1 << 20) - 100])), rng.choice(["MSTORE", "MLOAD", "MSTORE8"]), "STOP"])
    else:
        code = asm.assemble([("push", 4), "CALLDATALOAD"]) + bytes([rng.choice([0x0C, 0x21, 0x49, 0x4A, 0xA5, 0xEF, 0xF6, 0xFF])]) + b"\x00"
    return Scenario({MAIN: code}, nargs=1, name=f"malformed{k}")


def gen_immutable(rng):
    """code with symbolic immutables: `concrete prefix | PUSH32 <symbolic word> | concrete rest` (what a deployed contract
    with an immutable / symbolic constructor argument looks like), one or two holes, with JUMPDESTs and jumps located
    AFTER the holes, a 0x5b byte inside push data, branches on the immutable itself, on calldata, and CODECOPY across a hole.
    The hole words are inputs a{nargs+j}: the reference EVM runs the code with the holes filled by the input's words."""
    nargs = rng.choice([1, 2])
    nholes = rng.choice([1, 1, 2])
    hist = {f"immutable:holes{nholes}": 1}
    pre = rng.choice([[], ["JUMPDEST"], [("push", 7), "POP"], [("push", 0x5B5B), "POP"], ["JUMPDEST", ("push", 1), "POP", "JUMPDEST"]])
    hole = [("raw", b"\x7f" + bytes(32))]
    arg = lambda i: [("push", 4 + 32 * i), "CALLDATALOAD"]
    items, offs = list(pre), []
    # first hole right after the label-free prefix (its offset is the assembled length + 1)
    offs.append(len(asm.assemble(items)) + 1)
    items += hole                                   # stack: imm0
    items += [("push", 0x80), "MSTORE"]             # mem[0x80] = imm0
    if nholes == 2:
        mid = rng.choice([[], [("push", 3), "POP"], ["JUMPDEST"]])
        items += mid
        offs.append(len(asm.assemble(items)) + 1)
        items += hole + [("push", 0xA0), "MSTORE"]  # mem[0xa0] = imm1
    shape = rng.choice(["jumpi-arg", "jumpi-imm", "jumpi-imm-eq-arg", "jump", "two-level", "codecopy"])
    hist["immutable:" + shape] = 1
    ret = lambda v: [("push", v), ("push", 0), "MSTORE", ("push", 0xC0), ("push", 0), "RETURN"]   # returns v ‖ … ‖ imm words
    rev = lambda v: [("push", v), ("push", 0), "MSTORE", ("push", 0x20), ("push", 0), "REVERT"]
    end = lambda v: rng.choice([ret, ret, rev])(v)
    if shape == "jumpi-arg":
        cond = rng.choice([arg(0) + [("push", 1), "AND"], [("push", rng.randrange(4))] + arg(0) + ["EQ"], arg(0) + ["ISZERO"]])
        items += cond + [("ref", "A"), "JUMPI"] + end(1) + [("label", "A")] + end(2)
    elif shape == "jumpi-imm":
        cond = rng.choice([[("push", 0x80), "MLOAD", ("push", 1), "AND"], [("push", 0x80), "MLOAD", "ISZERO"],
                           [("push", rng.choice([0, 1, 0x5B, 1 << 255])), ("push", 0x80), "MLOAD", "EQ"]])
        items += cond + [("ref", "A"), "JUMPI"] + end(1) + [("label", "A")] + end(2)
    elif shape == "jumpi-imm-eq-arg":
        items += arg(0) + [("push", 0x80), "MLOAD", "EQ", ("ref", "A"), "JUMPI"] + end(1) + [("label", "A")] + end(2)
    elif shape == "jump":
        items += [("ref", "A"), "JUMP", "INVALID", ("push", 0x5B5B), "POP", ("label", "A")] + end(3)
    elif shape == "two-level":
        items += (arg(0) + [("push", 1), "AND", ("ref", "A"), "JUMPI"] + end(1) + [("label", "A")]
                  + [("push", 0x80), "MLOAD", ("push", 1), "AND", ("ref", "B"), "JUMPI"] + end(2) + [("label", "B")] + end(3))
    else:
        # CODECOPY of a window that covers (part of) the first hole, then a jump over a data island
        o = max(0, offs[0] - rng.choice([0, 1, 3]))
        items += [("push", rng.choice([8, 32, 40])), ("push", o), ("push", 0x20), "CODECOPY", ("ref", "A"), "JUMP", ("raw", b"\x60\x5b"), ("label", "A")] + end(4)
    code = asm.assemble(items)
    for off in offs:
        assert code[off - 1] == 0x7F and code[off:off + 32] == bytes(32), "hole offset"
    return Scenario({MAIN: code}, nargs=nargs, immutables={MAIN: offs}), hist


DIRTY = [2, 4, 6, 0x80, 0x100, 0x17F, 0x1234, 0x7FFF, 0x8000, 0xFF00, 0x10000, 1 << 255, (1 << 255) + 2, W - 1, W - 2, W - 256,
         (1 << 160) + 5, 0xFFFF_FFFF_0000_0000, 31, 32, 33, 255, 256, 0, 1, 3, 7]


def wordmix_plan():
    """every instruction x every tuple of operand representations over {bool, dirty, arg} except all-arg (ternary: a sample)"""
    import itertools

    plan = []
    for op in BIN + UN + TER:
        arity = 1 if op in UN else 3 if op in TER else 2
        tuples = [t for t in itertools.product(["bool", "dirty", "arg"], repeat=arity) if set(t) != {"arg"}]
        if arity == 3:
            tuples = tuples[::4]
        plan += [(op, t) for t in tuples]
    return plan


def gen_wordmix(rng, forced=None):
    """one word instruction applied to operands of MIXED representation inside a program, the result observed both as data
    and through a branch: each operand is a Bool-typed item (a comparison result), a run-time-concrete word with 'dirty' high /
    low bits (so that the concrete fast paths of bitvec.py run), a calldata word, or a small constant; then
    `if (r == a1) return (1, r) else return (2, r)` (a1 symbolic: both sides feasible, the equality pins the real value of r).
    Directed use: called with a forced (op, representation tuple) by the callers' iterators, random otherwise."""
    ops = BIN + UN + TER
    op = forced[0] if forced else rng.choice(ops)
    arity = 1 if op in UN else 3 if op in TER else 2
    arg0 = [("push", 4), "CALLDATALOAD"]
    arg1 = [("push", 0x24), "CALLDATALOAD"]

    def operand(kind):
        if kind == "bool":
            cmpop = rng.choice(["LT", "GT", "EQ", "SLT", "SGT", "ISZERO"])
            if cmpop == "ISZERO":
                return arg0 + ["ISZERO"]
            return [("push", rng.choice([0, 1, 5, 0x80, W - 1]))] + arg0 + [cmpop]
        if kind == "dirty":
            return [("push", rng.choice(DIRTY) % W)]
        if kind == "arg":
            return list(arg0)
        return [("push", rng.choice([0, 1, 2, 7, 8, 15, 30, 31, 32]))]

    kinds = list(forced[1]) if forced else [rng.choice(["bool", "dirty", "dirty", "arg", "small"]) for _ in range(arity)]
    if op in ("SHL", "SHR", "SAR", "BYTE", "SIGNEXTEND") and (kinds[0] == "dirty" or rng.random() < 0.5):
        kinds[0] = "small"                       # first operand (top of stack) = shift amount / byte index / size
    if op == "EXP" and kinds[1] != "bool":
        kinds[1] = "small"                       # exponent
    body = []
    for k in reversed(kinds):                    # first operand ends on top of the stack
        body += operand(k)
    body += [op, "DUP1", ("push", 0x20), "MSTORE"]                      # mem[0x20] = r ; r stays on the stack
    body += arg1 + ["EQ", ("ref", "A"), "JUMPI",
                    ("push", 2), ("push", 0), "MSTORE", ("push", 0x40), ("push", 0), "RETURN",
                    ("label", "A"), ("push", 1), ("push", 0), "MSTORE", ("push", 0x40), ("push", 0), "RETURN"]
    hist = {f"wordmix:{op}": 1, "wordmix:" + "+".join(sorted(kinds)): 1}
    return Scenario({MAIN: asm.assemble(body)}, nargs=2), hist


GRID = [0, 1, 2, 3, 5, 6, 0x7F, 0x80, 0xFF, 0x100, 0x17F, 0x1234, 0x8000, W - 1, W - 2, W - 3, W - 6, 1 << 255, (1 << 255) + 2, W - 256]
GRID_SMALL = [0, 1, 2, 7, 8, 15, 30, 31, 32, 255, 256]


def gen_concrete_grid(rng, op):
    """one program per instruction that applies it to a whole grid of run-time-CONCRETE operand tuples (boundary and 'dirty'
    words; small first operands for the shift / byte / sign-extension family; small exponents) and returns every result:
    the concrete fast paths of the word operations, exercised inside SEVM.run and compared with the reference EVM word by word"""
    arity = 1 if op in UN else 3 if op in TER else 2
    if arity == 1:
        tuples = [(x,) for x in GRID]
    elif arity == 3:
        g = [0, 1, 2, 5, 0x100, W - 1, W - 2, 1 << 255]
        tuples = [(a, b, c) for a in g for b in g for c in g[:6]]
    elif op in ("SHL", "SHR", "SAR", "BYTE", "SIGNEXTEND"):
        tuples = [(a, b) for a in GRID_SMALL for b in GRID]
    elif op == "EXP":
        tuples = [(a, b) for a in GRID for b in [0, 1, 2, 3, 5, 255, 256]]
    else:
        tuples = [(a, b) for a in GRID for b in GRID]
    items = []
    for i, t in enumerate(tuples):
        for v in reversed(t):                     # first operand ends on top of the stack
            items.append(("push", v % W))
        items += [op, ("push", 32 * i), "MSTORE"]
    items += [("push", 32 * len(tuples)), ("push", 0), "RETURN"]
    return Scenario({MAIN: asm.assemble(items)}, nargs=1), {f"concrete-grid:{op}": 1, "concrete-grid:tuples": len(tuples)}
