"""Shared check runner: regenerate -> build -> audit -> correspondence -> verdict -> evidence.

See tools/README.md for the contract between this runner and the per-property modules.
"""
from __future__ import annotations

import contextlib
import fcntl
import hashlib
import importlib
import json
import os
import random
import re
import subprocess
import sys
import time
import traceback
from pathlib import Path

VERIF = Path(__file__).resolve().parents[2]
LEAN = VERIF / "lean"
REPO = Path(os.environ.get("HALMOS_REPO", "/repo"))
PY = "/venv/bin/python"

ALLOWED_AXIOMS = {"propext", "Classical.choice", "Quot.sound"}
FORBIDDEN = re.compile(
    r"\bsorry\b|\badmit\b|^\s*axiom\s|native_decide|bv_decide|implemented_by|\bunsafe\s|maxHeartbeats\s+0\b"
)

GLOBAL_TRUSTED = [
    "Lean 4.33 kernel; axioms limited to propext, Classical.choice, Quot.sound (audited per theorem each run)",
    "hand-written Lean Spec definitions are the meaning of EVM/ABI/Keccak/Foundry in every theorem",
    "hand-written Lean Model mirrors the code; tied to /repo by the correspondence harness (differential runs) and by table extractors regenerated each run",
    "the Python harness, its generators, canonicalisers and the z3-term evaluator (tools/vlib/zeval.py)",
    "CPython, z3 (simplify/substitute preserve meaning), sortedcontainers",
]


class Timeout(Exception):
    pass


def sh(cmd, cwd=None, timeout=None, env=None, input=None):
    e = dict(os.environ)
    if env:
        e.update(env)
    p = subprocess.run(
        cmd, cwd=cwd, timeout=timeout, env=e, input=input,
        stdout=subprocess.PIPE, stderr=subprocess.STDOUT, text=True,
        shell=isinstance(cmd, str),
    )
    return p.returncode, p.stdout


@contextlib.contextmanager
def lake_lock():
    lock = LEAN / ".lake-verif.lock"
    lock.parent.mkdir(exist_ok=True)
    with open(lock, "w") as fh:
        fcntl.flock(fh, fcntl.LOCK_EX)
        try:
            yield
        finally:
            fcntl.flock(fh, fcntl.LOCK_UN)


def lake_build(targets, timeout=3000):
    with lake_lock():
        rc, out = sh(["lake", "build", *targets], cwd=LEAN, timeout=timeout)
    return rc, out


def strip_comments(text: str) -> str:
    # remove /- ... -/ (nested not handled beyond one level, adequate for our files) and -- comments
    out = []
    depth = 0
    i = 0
    n = len(text)
    while i < n:
        if text.startswith("/-", i):
            depth += 1
            i += 2
            continue
        if depth and text.startswith("-/", i):
            depth -= 1
            i += 2
            continue
        if depth:
            if text[i] == "\n":
                out.append("\n")
            i += 1
            continue
        if text.startswith("--", i):
            while i < n and text[i] != "\n":
                i += 1
            continue
        out.append(text[i])
        i += 1
    return "".join(out)


def module_path(mod: str) -> Path:
    return LEAN / (mod.replace(".", "/") + ".lean")


def transitive_local_imports(mods):
    seen, todo = set(), list(mods)
    while todo:
        m = todo.pop()
        if m in seen:
            continue
        p = module_path(m)
        if not p.exists():
            continue
        seen.add(m)
        for line in p.read_text().splitlines():
            mm = re.match(r"\s*(?:public\s+)?import\s+(HalmosVerif\.\S+)", line)
            if mm:
                todo.append(mm.group(1))
    return sorted(seen)


def grep_forbidden(mods):
    hits = []
    for m in transitive_local_imports(mods):
        text = strip_comments(module_path(m).read_text())
        for ln, line in enumerate(text.splitlines(), 1):
            if FORBIDDEN.search(line):
                hits.append(f"{m}:{ln}: {line.strip()[:120]}")
    return hits


AUDIT_TEMPLATE = """import Lean
{imports}
open Lean Elab Command in
elab "#audit_module " m:ident : command => do
  let env ← getEnv
  let some idx := env.getModuleIdx? m.getId | throwError "no module {{m.getId}}"
  for c in env.header.moduleData[idx]!.constNames do
    if c.isInternalDetail then continue
    match env.find? c with
    | some (.thmInfo _) =>
      let axs ← Lean.collectAxioms c
      logInfo m!"AUDIT {{c}} :: {{axs.toList}}"
    | _ => pure ()
{cmds}
"""


def audit(mods, timeout=1200):
    """Return (theorems: {name: [axioms]}, raw_output, rc)."""
    src = AUDIT_TEMPLATE.format(
        imports="\n".join(f"import {m}" for m in mods),
        cmds="\n".join(f"#audit_module {m}" for m in mods),
    )
    tag = hashlib.sha1(("|".join(mods)).encode()).hexdigest()[:10]
    f = LEAN / ".lake" / f"audit_{tag}_{os.getpid()}.lean"
    f.parent.mkdir(exist_ok=True)
    f.write_text(src)
    try:
        rc, out = sh(["lake", "env", "lean", str(f)], cwd=LEAN, timeout=timeout)
    finally:
        with contextlib.suppress(OSError):
            f.unlink()
    thms = {}
    for m in re.finditer(r"AUDIT (\S+) :: \[(.*?)\]", out, flags=re.S):
        axs = [a.strip() for a in m.group(2).replace("\n", " ").split(",") if a.strip()]
        thms[m.group(1)] = axs
    return thms, out, rc


class LeanDriver:
    """Line protocol to `lake env lean --run Driver/<name>.lean` (batch mode: all requests, then all replies)."""

    _built = set()

    def __init__(self, name: str):
        self.name = name

    def ensure_built(self):
        """the driver is interpreted (`lean --run`) against compiled .olean files: build what it imports (a no-op when
        the property's own modules already pulled them in)"""
        if self.name in LeanDriver._built:
            return
        src = (LEAN / "Driver" / f"{self.name}.lean").read_text()
        mods = re.findall(r"^import (HalmosVerif\.\S+)", src, flags=re.M)
        if mods:
            rc, out = lake_build(mods)
            if rc != 0:
                raise RuntimeError(f"Lean driver {self.name}: building its imports failed\n" + out[-1500:])
        LeanDriver._built.add(self.name)

    def ask(self, lines, timeout=1800):
        if not lines:
            return []
        self.ensure_built()
        data = "\n".join(lines) + "\n"
        if os.environ.get("VERIF_DEBUG_DRIVER"):
            Path(os.environ["VERIF_DEBUG_DRIVER"]).write_text(data)
        rc, out = sh(
            ["lake", "env", "lean", "--run", f"Driver/{self.name}.lean"],
            cwd=LEAN, timeout=timeout, input=data,
        )
        replies = [l for l in out.splitlines() if not l.startswith("WARNING")]
        if rc != 0 or len(replies) != len(lines):
            raise RuntimeError(
                f"Lean driver {self.name}: rc={rc}, {len(replies)} replies for {len(lines)} requests\n"
                + "\n".join(replies[-15:])
            )
        return replies


class Ctx:
    def __init__(self, pid, tier, seed, search=False):
        self.pid = pid
        self.tier = tier
        self.seed = seed
        self.rng = random.Random(seed)
        self.search = search  # True when an obligation broke: spend a larger budget
        self.evaluations = 0
        self.nontrivial_keys = set()
        self.hist = {}
        self.samples = []
        self.violations = []  # dicts: key, what, replay
        self.notes = []
        self.extra = {}
        self.t0 = time.time()

    # budgets -------------------------------------------------------------
    def scale(self, quick, thorough):
        n = quick if self.tier == "quick" else thorough
        if self.search and self.tier == "quick":
            n = min(thorough, quick * 4)
        return n

    # accounting ----------------------------------------------------------
    def case(self, key=None, nontrivial=True, n=1):
        """count one evaluated case; key identifies it for distinctness (any hashable / str)"""
        self.evaluations += n
        if nontrivial and key is not None:
            if not isinstance(key, (str, bytes, int)):
                key = repr(key)
            self.nontrivial_keys.add(hashlib.blake2b(str(key).encode(), digest_size=8).digest())

    def count(self, bucket, n=1):
        self.hist[bucket] = self.hist.get(bucket, 0) + n

    def sample(self, obj, limit=6):
        if len(self.samples) < limit:
            self.samples.append(obj)

    def note(self, s):
        self.notes.append(s)

    def violation(self, key, what, replay):
        """key: stable id of the failing input class / call site (matched against known_findings.json)"""
        for v in self.violations:
            if v["key"] == key:
                v["count"] += 1
                return
        self.violations.append({"key": key, "what": what, "replay": replay, "count": 1})

    def lean(self, name):
        return LeanDriver(name)


def load_known():
    p = VERIF / "known_findings.json"
    if not p.exists():
        return []
    return json.loads(p.read_text()).get("findings", [])


def write_replay(pid, key, body):
    d = VERIF / "replays"
    d.mkdir(exist_ok=True)
    h = hashlib.sha1(key.encode()).hexdigest()[:12]
    p = d / f"{pid}-{h}.json"
    p.write_text(json.dumps(body, indent=1, default=str))
    return p.relative_to(VERIF)


def run_extractors(names):
    """Each tools/extract/<name>.py exposes main() writing its Gen file(s); failure = broken obligation."""
    broken = []
    sys.path.insert(0, str(VERIF / "tools"))
    for n in names:
        try:
            mod = importlib.import_module(f"extract.{n}")
            mod.main()
        except Exception as e:  # fail closed
            broken.append({"kind": "extract", "name": n, "detail": f"{type(e).__name__}: {e}"})
    return broken


def run_check(pid: str, tier: str, seed: int, replay: str | None = None) -> int:
    t0 = time.time()
    sys.path.insert(0, str(VERIF / "tools"))
    prop = importlib.import_module(f"props.{pid.lower()}")

    if replay:
        ctx = Ctx(pid, tier, seed)
        data = json.loads((VERIF / replay).read_text() if not os.path.isabs(replay) else Path(replay).read_text())
        still = prop.replay(ctx, data)
        print(("VIOLATION reproduced" if still else "not reproduced") + f" property={pid} replay={replay}")
        return 1 if still else 0

    broken = []
    # 1. regenerate
    broken += run_extractors(getattr(prop, "EXTRACTORS", []))
    mods = list(getattr(prop, "LEAN_MODULES", []))
    # 2. build
    build_ok = True
    build_log = ""
    if mods:
        rc, out = lake_build(mods + list(getattr(prop, "LEAN_EXTRA_TARGETS", [])))
        build_log = out
        if rc != 0:
            build_ok = False
            errs = [l for l in out.splitlines() if "error" in l.lower()][:12]
            broken.append({"kind": "build", "name": ",".join(mods), "detail": "\n".join(errs) or out[-1500:]})
    # 3. audit
    thms, forb = {}, []
    if mods and build_ok:
        thms, aout, arc = audit(mods)
        if arc != 0 or not thms:
            broken.append({"kind": "audit", "name": ",".join(mods), "detail": aout[-1500:]})
        forb = grep_forbidden(mods)
        for h in forb:
            broken.append({"kind": "forbidden", "name": h, "detail": h})
        for t, axs in thms.items():
            bad = [a for a in axs if a not in ALLOWED_AXIOMS]
            if bad:
                broken.append({"kind": "axiom", "name": t, "detail": f"{t} depends on {bad}"})
    # 3b. thorough tier: independent re-check of the compiled .olean files (and their local imports) by leanchecker
    recheck = None
    if mods and build_ok and tier == "thorough" and not os.environ.get("VERIF_NO_LEANCHECKER"):
        t1 = time.time()
        with lake_lock():
            rc, out = sh(["lake", "env", "leanchecker", *mods], cwd=LEAN, timeout=3000)
        recheck = {"cmd": "lake env leanchecker " + " ".join(mods), "rc": rc, "wall_s": round(time.time() - t1, 1)}
        if rc != 0:
            broken.append({"kind": "leanchecker", "name": ",".join(mods), "detail": out[-1500:]})
    # count obligations (theorems declared in the property files, from source text so that a failed build still counts them)
    declared = []
    for m in mods:
        p = module_path(m)
        if p.exists():
            declared += re.findall(r"^\s*(?:@\[[^\]]*\]\s*)?(?:private\s+|protected\s+)?theorem\s+(\S+)", strip_comments(p.read_text()), flags=re.M)
    obligations = max(len(declared), len(thms))
    bad_thms = {b["name"] for b in broken if b["kind"] == "axiom"}
    discharged = 0 if (not build_ok or any(b["kind"] in ("audit", "forbidden") for b in broken)) else len(thms) - len(bad_thms)
    if any(b["kind"] == "extract" for b in broken) and build_ok:
        # the model could not be regenerated: the theorems that were checked are about a stale model
        discharged = 0

    # 4./5. correspondence + spec differential (+ larger budget when something broke)
    ctx = Ctx(pid, tier, seed, search=bool(broken))
    corr_error = None
    try:
        prop.correspond(ctx)
    except Timeout:
        print(f"TIMEOUT property={pid}")
        return 2
    except Exception as e:
        corr_error = f"{type(e).__name__}: {e}\n{traceback.format_exc()[-2500:]}"
        broken.append({"kind": "correspondence", "name": f"props.{pid.lower()}.correspond", "detail": corr_error})

    # 6. verdict
    known = [k for k in load_known() if k.get("property") == pid and k.get("status", "known") == "known"]
    known_keys = {k["key"]: k for k in known}
    exit_code = 0
    lines = []
    reported = 0
    seen_known = set()
    for v in ctx.violations:
        if v["key"] in known_keys:
            seen_known.add(v["key"])
            lines.append(f"KNOWN-FINDING: property={pid} {known_keys[v['key']]['what']} [key={v['key']}]")
            continue
        path = write_replay(pid, v["key"], {
            "property": pid, "key": v["key"], "what": v["what"], "replay": v["replay"],
            "occurrences": v["count"], "seed": seed, "tier": tier,
            "rerun": f"./check {pid} --replay <this file>",
        })
        lines.append(f"VIOLATION property={pid} replay={path}")
        sys.stderr.write(f"  violation detail: {v['what']}\n")
        reported += 1
        exit_code = 1
    if broken and not reported:
        # nothing concrete found on the real code, but the property is no longer shown to hold
        key = "broken:" + ";".join(sorted(f"{b['kind']}:{b['name']}" for b in broken))
        path = write_replay(pid, key, {
            "property": pid, "key": key,
            "what": "proof obligation / translator / correspondence no longer checks; failing-input search found nothing",
            "broken": broken, "seed": seed, "tier": tier,
            "search": {"evaluations": ctx.evaluations, "hist": ctx.hist},
        })
        lines.append(f"VIOLATION property={pid} replay={path} no-failing-input-found")
        exit_code = 1
    elif broken:
        for b in broken:
            sys.stderr.write(f"  broken obligation: {b['kind']} {b['name']}: {b['detail'][:400]}\n")

    # 7. evidence
    wall = time.time() - t0
    cov = {
        "obligations": obligations,
        "discharged": discharged,
        "checker_cmd": (f"cd lean && lake build {' '.join(mods)} && lake env lean <generated #audit_module file listing "
                        f"Lean.collectAxioms of every theorem in {' '.join(mods)}>") if mods else "none",
        "trusted_base": GLOBAL_TRUSTED + list(getattr(prop, "TRUSTED", [])),
        "theorems": {t: axs for t, axs in sorted(thms.items())},
        "axioms_seen": sorted({a for axs in thms.values() for a in axs}),
        "broken_obligations": broken,
        "evaluations": ctx.evaluations,
        "distinct_nontrivial": len(ctx.nontrivial_keys),
        "rule": getattr(prop, "RULE", ""),
        "samples": ctx.samples or ["(no sample recorded)"],
        "histogram": dict(sorted(ctx.hist.items())),
        "known_findings_seen": sorted(seen_known),
        "leanchecker": recheck or "not run (quick tier)",
        "notes": ctx.notes,
        "exhaustive": bool(ctx.extra.get("exhaustive", False)),
    }
    cov.update({k: v for k, v in ctx.extra.items() if k not in cov})
    ev = {
        "property_id": pid,
        "tier": tier,
        "seed": seed,
        "level": "proof",
        "coverage": cov,
        "assumptions": list(getattr(prop, "ASSUMPTIONS", [])),
        "wall_s": round(wall, 2),
        "violations": reported + (1 if (broken and not reported) else 0),
    }
    (VERIF / "evidence").mkdir(exist_ok=True)
    (VERIF / "evidence" / f"{pid}.json").write_text(json.dumps(ev, indent=1, default=str))

    for l in lines:
        print(l)
    print(f"[{pid}] tier={tier} seed={seed} obligations={obligations} discharged={discharged} "
          f"evaluations={ctx.evaluations} distinct={len(ctx.nontrivial_keys)} violations={ev['violations']} "
          f"known={len(seen_known)} wall={wall:.1f}s")
    return exit_code
