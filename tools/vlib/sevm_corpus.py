"""Directed SEVM scenarios (run before the random stream): minimised past failures and probes of suspicious code sites.
Each entry: name -> (contracts {addr: asm text}, nargs, static, cfg, properties it speaks to)."""
from . import asm
from .evmdiff import MAIN, Scenario

RET = "PUSH1 0xc0 PUSH0 RETURN"

CASES = {
    # CALLCODE transfers to itself, so halmos skips transfer_value() - and with it the `balance >= value` constraint:
    # the continuing path also covers inputs whose balance is insufficient (EVM: the call fails, pushes 0)
    "callcode-value-exceeds-balance": (
        {MAIN: f"PUSH1 0x20 PUSH2 0x0140 PUSH0 PUSH0 PUSH1 0x04 CALLDATALOAD PUSH1 0xff AND PUSH2 0x2000 PUSH2 0xffff CALLCODE PUSH0 MSTORE PUSH2 0x0140 MLOAD PUSH1 0x20 MSTORE {RET}",
         0x2000: "PUSH1 0x07 PUSH0 MSTORE PUSH1 0x20 PUSH0 RETURN"}, 1, False, {}, ["C01", "C09"]),
    # JUMPI with a symbolic condition and an invalid destination: the whole state halts with InvalidJumpDest
    "jumpi-symbolic-cond-invalid-dest": (
        {MAIN: f"PUSH1 0x04 CALLDATALOAD PUSH1 0x01 AND PUSH1 0x03 JUMPI PUSH1 0x2a PUSH0 MSTORE {RET}"}, 1, False, {}, ["C01", "C02"]),
    # value-bearing CALL inside a static frame must fail
    "static-call-with-value": (
        {MAIN: f"PUSH1 0x20 PUSH1 0x40 PUSH0 PUSH0 PUSH2 0x2000 PUSH2 0xffff STATICCALL PUSH0 MSTORE PUSH1 0x40 MLOAD PUSH1 0x20 MSTORE PUSH2 0x2222 BALANCE PUSH1 0x60 MSTORE {RET}",
         0x2000: "PUSH0 PUSH0 PUSH0 PUSH0 PUSH1 0x01 PUSH2 0x2222 PUSH2 0xffff CALL PUSH0 MSTORE PUSH1 0x20 PUSH0 RETURN"}, 1, False, {}, ["C09", "C01"]),
    # MSIZE counts memory touched by reads as well
    "msize-after-mload": (
        {MAIN: f"PUSH1 0x40 MLOAD POP MSIZE PUSH0 MSTORE {RET}"}, 1, False, {}, ["C01"]),
    # EXTCODECOPY from an account without code zero-fills `size` bytes
    "extcodecopy-empty-account": (
        {MAIN: f"PUSH32 0xffffffffffffffffffffffffffffffffffffffffffffffffffffffffffffffff PUSH0 MSTORE PUSH1 0x20 PUSH0 PUSH0 PUSH2 0x3333 EXTCODECOPY {RET}"},
        1, False, {}, ["C01"]),
    # BLOCKHASH applied to a Bool-typed stack item
    "blockhash-of-bool": (
        {MAIN: "PUSH1 0x02 PUSH1 0x04 CALLDATALOAD LT BLOCKHASH POP PUSH1 0x01 PUSH0 MSTORE PUSH1 0x20 PUSH0 RETURN"}, 1, False, {}, ["C01"]),
    # zero-size RETURN / REVERT / LOG never touch memory, whatever the offset
    "return-zero-size-huge-offset": (
        {MAIN: "PUSH1 0x04 CALLDATALOAD PUSH @r JUMPI PUSH0 PUSH4 0x00200000 RETURN r: PUSH0 PUSH4 0x00200000 REVERT"}, 1, False, {}, ["C01"]),
    "log-zero-size-huge-offset": (
        {MAIN: f"PUSH0 PUSH4 0x00200000 LOG0 PUSH1 0x07 PUSH0 MSTORE {RET}"}, 1, False, {}, ["C01"]),
    # a symbolic address is probed while no account lives there (cached as "no such account" on that path), then a CREATE
    # allocates exactly that address, then the address is called: the call must run the created code
    "alias-probed-empty-then-created": (
        {MAIN: "PUSH1 0x04 CALLDATALOAD EXTCODESIZE PUSH2 0x0220 MSTORE "
               "PUSH16 0x67602a5f5260205ff35f5260086018f3 PUSH2 0x0100 MSTORE PUSH1 0x10 PUSH2 0x0110 PUSH0 CREATE PUSH2 0x0240 MSTORE "
               "PUSH1 0x20 PUSH2 0x0260 PUSH0 PUSH0 PUSH0 PUSH1 0x04 CALLDATALOAD PUSH2 0xffff CALL PUSH2 0x0280 MSTORE "
               "PUSH1 0xa0 PUSH2 0x0200 RETURN"}, 1, False, {}, ["C01", "C02", "C09"]),
    # a symbolic address aliasing the Foundry test-contract address: excluded from the alias candidates AND from the
    # emptiness branch of resolve_address_alias, so no path admits it
    "alias-to-foundry-test-address": (
        {MAIN: f"PUSH1 0x04 CALLDATALOAD EXTCODESIZE PUSH0 MSTORE {RET}",
         0x7FA9385BE102AC3EAC297483DD6233D62B3E1496: "PUSH1 0x07 PUSH0 MSTORE PUSH1 0x20 PUSH0 RETURN"}, 1, False, {}, ["C02"]),
    # the 1024-item stack limit
    "stack-limit-1025-items": (
        {MAIN: " ".join(["PUSH0"] * 1025) + " STOP"}, 1, False, {}, ["C01"]),
    # plain sanity cases that must always agree
    "branch-on-arg": (
        {MAIN: f"PUSH1 0x2a PUSH1 0x04 CALLDATALOAD EQ PUSH @t JUMPI PUSH1 0x01 PUSH0 MSTORE {RET} t: PUSH1 0x02 PUSH0 MSTORE PUSH1 0x20 PUSH0 REVERT"},
        1, False, {}, ["C01", "C02"]),
    # instructions of the EVM outside the model: the path must be reported stuck, at top level and behind a branch
    "unmodelled-blobhash-in-branch": (
        {MAIN: f"PUSH1 0x01 PUSH1 0x04 CALLDATALOAD AND PUSH @t JUMPI PUSH1 0x01 PUSH0 MSTORE {RET} t: PUSH0 RAW 0x49 PUSH0 MSTORE {RET}"},
        1, False, {}, ["C01", "C02", "C10"]),
    "unmodelled-blobbasefee-straight": (
        {MAIN: f"RAW 0x4a PUSH0 MSTORE {RET}"}, 1, False, {}, ["C01", "C02", "C10"]),
    "undefined-byte-in-branch": (
        {MAIN: f"PUSH1 0x01 PUSH1 0x04 CALLDATALOAD AND PUSH @t JUMPI PUSH1 0x01 PUSH0 MSTORE {RET} t: RAW 0x0c"},
        1, False, {}, ["C01", "C02", "C10"]),
    # hash + (1 + y) compared with the hash: the overflow branch is feasible when y is unconstrained
    "hash-plus-symbolic-offset-overflow": (
        {MAIN: "PUSH1 0x04 CALLDATALOAD PUSH0 MSTORE PUSH1 0x20 PUSH0 SHA3 DUP1 PUSH1 0x24 CALLDATALOAD PUSH1 0x01 ADD SWAP1 ADD LT "
               f"PUSH @ovf JUMPI PUSH1 0x01 PUSH0 MSTORE {RET} ovf: PUSH1 0x02 PUSH0 MSTORE PUSH1 0x20 PUSH0 REVERT"},
        2, False, {}, ["C01", "C02"]),
    # zero-length input to the hash / modexp precompiles (outside the reference model: only "no internal exception
    # escapes" is checked for these)
    "precompile-empty-input": (
        {MAIN: " ".join(f"PUSH1 0x20 PUSH0 PUSH0 PUSH0 PUSH0 PUSH1 {a} GAS CALL POP" for a in (2, 3, 5)) + f" {RET}"},
        0, False, {}, ["C01"]),
    # known finding: under symbolic (arbitrary) storage a TLOAD adds `storage_<addr>_..._00[slot] == 0` -- the base array of
    # transient storage has the same name as the persistent one -- so inputs whose initial persistent slot is non-zero
    # are covered by no path
    "tload-under-symbolic-storage": (
        {MAIN: f"PUSH0 TLOAD PUSH0 MSTORE PUSH0 SLOAD PUSH1 0x20 MSTORE {RET}"},
        1, False, {"symbolic_storage": True, "storage_layout": "generic"}, ["C02"]),
    # CODECOPY / EXTCODECOPY windows that start inside the code and end past it, over dirty memory (zeros beyond the code)
    "codecopy-across-code-end-dirty": (
        {MAIN: "PUSH32 0x" + "ff" * 32 + " PUSH0 MSTORE PUSH32 0x" + "ee" * 32 + " PUSH1 0x20 MSTORE "
               f"PUSH1 0x20 PUSH1 0x04 CODESIZE SUB PUSH0 CODECOPY PUSH1 0x21 PUSH1 0x01 CODESIZE SUB PUSH1 0x40 CODECOPY {RET}"},
        1, False, {}, ["C01"]),
    "extcodecopy-across-code-end-dirty": (
        {MAIN: "PUSH32 0x" + "ff" * 32 + " PUSH0 MSTORE PUSH32 0x" + "ee" * 32 + " PUSH1 0x20 MSTORE "
               f"PUSH1 0x20 PUSH1 0x02 PUSH0 PUSH2 0x2000 EXTCODECOPY PUSH1 0x08 PUSH1 0x03 PUSH1 0x40 PUSH2 0x2000 EXTCODECOPY {RET}",
         0x2000: "PUSH1 0x2a PUSH0 MSTORE STOP"}, 1, False, {}, ["C01"]),
    # hash + constant with the top bit set (h + (2**256-1) = h - 1 < h): the overflow shortcut must not apply
    "hash-plus-huge-constant": (
        {MAIN: "PUSH1 0x04 CALLDATALOAD PUSH0 MSTORE PUSH1 0x20 PUSH0 SHA3 DUP1 PUSH32 0x" + "ff" * 32 + " ADD LT "
               f"PUSH @lt JUMPI PUSH1 0x01 PUSH0 MSTORE {RET} lt: PUSH1 0x02 PUSH0 MSTORE {RET}"},
        1, False, {}, ["C01", "C02"]),
    "hash-plus-signbit-constant": (
        {MAIN: "PUSH1 0x04 CALLDATALOAD PUSH0 MSTORE PUSH1 0x20 PUSH0 SHA3 DUP1 PUSH32 0x80" + "00" * 30 + "05 ADD LT "
               f"PUSH @lt JUMPI PUSH1 0x01 PUSH0 MSTORE {RET} lt: PUSH1 0x02 PUSH0 MSTORE {RET}"},
        1, False, {}, ["C01", "C02"]),
    # CALLCODE / CALL carrying a value with the top bit set: more than any admissible balance, the call must fail
    "callcode-value-signbit": (
        {MAIN: "PUSH0 PUSH0 PUSH0 PUSH0 PUSH32 0x80" + "00" * 31 + " PUSH2 0x2000 PUSH2 0xffff CALLCODE PUSH0 MSTORE "
               f"PUSH0 PUSH0 PUSH0 PUSH0 PUSH1 0x04 CALLDATALOAD PUSH2 0x2000 PUSH2 0xffff CALLCODE PUSH1 0x20 MSTORE "
               f"PUSH0 PUSH0 PUSH0 PUSH0 PUSH1 0x04 CALLDATALOAD PUSH2 0x2000 PUSH2 0xffff CALL PUSH1 0x40 MSTORE {RET}",
         0x2000: "PUSH1 0x01 PUSH0 SSTORE STOP"}, 1, False, {}, ["C09", "C01"]),
    # EIP-211: after a CREATE whose init code reverts, the return data buffer holds the revert data
    "create-revert-returndata": (
        {MAIN: "PUSH12 0x63deadbeef5f526004601cfd PUSH0 MSTORE PUSH1 0x0c PUSH1 0x14 PUSH0 CREATE PUSH1 0x20 MSTORE "
               f"RETURNDATASIZE PUSH1 0x40 MSTORE PUSH1 0x04 PUSH0 PUSH1 0x60 RETURNDATACOPY {RET}"},
        1, False, {}, ["C01", "C09"]),
    "call-revert-rolls-back": (
        {MAIN: f"PUSH1 0x05 PUSH1 0x01 SSTORE PUSH1 0x20 PUSH1 0x40 PUSH0 PUSH0 PUSH1 0x03 PUSH2 0x2000 PUSH2 0xffff CALL PUSH0 MSTORE PUSH1 0x40 MLOAD PUSH1 0x20 MSTORE PUSH2 0x2000 BALANCE PUSH1 0x60 MSTORE PUSH1 0x01 SLOAD PUSH1 0x80 MSTORE {RET}",
         0x2000: "PUSH1 0x09 PUSH1 0x01 SSTORE CALLVALUE PUSH0 MSTORE PUSH1 0x20 PUSH0 REVERT"}, 1, False, {}, ["C09", "C01"]),
}


def scenarios(which=None):
    out = []
    for name, (contracts, nargs, static, cfg, props) in CASES.items():
        if which and not (set(props) & set(which)):
            continue
        cs = {a: asm.assemble_text(t) for a, t in contracts.items()}
        out.append((name, Scenario(cs, nargs=nargs, static=static, name=name), cfg, props))
    return out
