"""The shared SEVM-vs-reference-EVM comparison used by the C01 / C02 / C09 / C10 checks.

For every scenario: run the real SEVM symbolically; pick concrete inputs (random, boundary, a solver model of every
reported path, solver models of "not covered by any path" — z3 is a search aid only, every input is re-validated by
evaluation); run the Lean reference EVM on each input; then
  C01: every path whose constraints the input satisfies must predict exactly the concrete outcome
       (halt kind, return/revert data; for successful paths also storage, transient storage, balances, created code);
  C02: every input must be covered by some path unless the run raised a flag (bounded loop, stuck path, warning);
  C10: an uncovered input on a run that cut a loop must come with the loop flag; a loop whose condition is concrete
       is never cut;
  C09: the same comparison on call-tree scenarios (frames, value transfers, static context), reported under C09.
"""
from __future__ import annotations

import re
import time

import z3

from . import evmdiff as D
from .evmdiff import MAIN, W


PLAIN_SLOT_LIMIT = 1 << 32
MAX_ETH = 1 << 128
SOLVER_BUDGET_S = 3.0
SOLVER_TOTAL_S = (50.0, 900.0)   # (quick, thorough) wall-clock cap on solver-aided input search per run
FLAG_WARNING = re.compile(r"incomplete|loop|bound|--depth|--width|unsupported|not supported", re.I)


def halt_matches(path_kind: str, conc_halt: str) -> bool:
    if path_kind == conc_halt:
        return True
    return False


def classify_program(scn):
    ops = set()
    from . import asm

    for code in scn.contracts.values():
        for _, m in asm.disassemble(code):
            ops.add(m.split()[0])
    return ops


def post_state(sr, p, pe, scn, conc):
    """symbolic post-state of a successful path evaluated under the inputs, restricted to the locations the concrete run
    touched (plus code)"""
    from halmos.bitvec import HalmosBitVec as BV
    from halmos.sevm import con_addr

    ex = p.ex
    out = {"storage": {}, "transient": {}, "balances": {}, "codes": {}}
    # The reads below go through halmos' own accessors (sload / balance_of), whose array simplification (`Exec.select`)
    # asks the path's solver -- but sibling paths share one solver object, which after the run holds the constraints of
    # whichever path was active last. Answer `unknown` to every such query here: `select` then returns the plain
    # Select(array, key) term, which the evaluator resolves exactly from the array definitions in the path conditions.
    import halmos.sevm as S

    orig_check = S.Exec.check
    S.Exec.check = lambda self, cond: z3.unknown
    try:
        return _post_state(sr, ex, pe, conc, out)
    finally:
        S.Exec.check = orig_check


def _post_state(sr, ex, pe, conc, out):
    from halmos.bitvec import HalmosBitVec as BV
    from halmos.sevm import con_addr

    for (a, slot) in conc.storage:
        addr = con_addr(a)
        if slot >= PLAIN_SLOT_LIMIT:
            continue  # hashed locations are compared through program outputs (C08), not by probing a literal slot
        if addr in ex.storage:
            out["storage"][(a, slot)] = pe.word(sr.sevm.sload(ex, addr, BV(slot, size=256)))
    for (a, slot) in conc.transient:
        addr = con_addr(a)
        if slot >= PLAIN_SLOT_LIMIT:
            continue
        if addr in ex.transient_storage:
            out["transient"][(a, slot)] = pe.word(sr.sevm.sload(ex, addr, BV(slot, size=256), transient=True))
    for a in conc.balances:
        out["balances"][a] = pe.word(ex.balance_of(BV(a, size=160)))
    for addr, c in ex.code.items():
        if z3.is_bv_value(addr):
            out["codes"][addr.as_long()] = pe.bytes_of(c._code)
    return out


def calls_precompile(ex) -> bool:
    """does the path's call trace contain a message to a precompile address (1..10)? The reference EVM has no
    precompiles (DESIGN: Cancun minus precompiles), so such a path has no reference behaviour to be compared with."""
    from halmos.sevm import CallContext

    todo = [ex.context]
    while todo:
        c = todo.pop()
        for t in c.trace:
            if isinstance(t, CallContext):
                tgt = t.message.target
                v = tgt.value if hasattr(tgt, "value") else tgt
                try:
                    n = v if isinstance(v, int) else (v.as_long() if z3.is_bv_value(v) else None)
                except Exception:  # noqa: BLE001
                    n = None
                if n is not None and 1 <= n <= 10:
                    return True
                todo.append(t)
    return False


def compare_scenario(ctx, pid, scn, sr, inputs_list, concs, report):
    """returns (covered_flags per input). `report(kind, what, replay)` records a violation."""
    flagged = (bool(sr.bounded_loops) or any(p.kind.startswith("stuck:") for p in sr.paths)
               or any(FLAG_WARNING.search(w) for w in sr.warnings))
    n_cov = 0
    for inp, conc in zip(inputs_list, concs):
        if conc.halt == "outOfFuel":
            ctx.count("concrete:outOfFuel")
            continue
        # no intermediate balance can exceed MAX_ETH when the total supply in play stays below it
        supply = sum(inp.balances.values()) + inp.baldefault * 8
        if supply > MAX_ETH or any(v > MAX_ETH for v in conc.balances.values()):
            ctx.count("input-outside-assumption:balance>2^128")   # the documented MAX_ETH modelling assumption
            continue
        undecided = False
        covering = []
        for j, p in enumerate(sr.paths):
            pe = D.PathEval(inp)
            try:
                ok = pe.satisfies(p.conds)
            except D.Unknown as u:
                ctx.count("eval-unknown:" + str(u)[:30])
                ok = None
                undecided = True
            except (AttributeError, TypeError, z3.Z3Exception) as u:
                # a term shape the harness' evaluator does not handle: no verdict for this path (kept visible)
                ctx.count("eval-error:" + type(u).__name__)
                if len(ctx.notes) < 5:
                    ctx.note(f"evaluator gap ({type(u).__name__}: {u}) on a path condition of program "
                             f"{scn.main_code().hex()[:400]}; conds={[str(c)[:200] for c in p.conds][:6]}")
                ok = None
                undecided = True
            if ok:
                covering.append((j, p, pe))
        base_replay = {
            "contracts": {hex(a): c.hex() for a, c in scn.contracts.items()}, "nargs": scn.nargs, "immutables": {hex(a): v for a, v in scn.immutables.items()}, "static": scn.static,
            "selector": scn.selector.hex(),
            "inputs": {"args": [hex(v) for v in inp.args], "caller": hex(inp.caller), "origin": hex(inp.origin), "value": hex(inp.value),
                       "balances": {hex(a): hex(v) for a, v in inp.balances.items()}, "baldefault": hex(inp.baldefault),
                       "storage": {f"{a:#x}:{sl}": hex(v) for (a, sl), v in inp.storage.items()}},
            "reference_evm": conc.raw, "config": sr_cfg(sr),
        }
        if covering:
            n_cov += 1
        if conc.halt.startswith("unsupported"):
            # the input reaches an instruction of the EVM that is outside the model (BLOBHASH, BLOBBASEFEE, SELFDESTRUCT):
            # what follows is unexplored, so the run must say so -- a stuck path covering the input
            ctx.count("concrete:reaches-unmodelled-instruction")
            # (an input covered by no path at all falls under the general uncovered-input rule below, which honours
            # the loop-bound / depth flags)
            if covering and not undecided and not any(p.kind.startswith("stuck:") for _, p, _ in covering):
                report("C02", "uncovered:unmodelled-instruction-not-reported",
                       f"the input reaches the unmodelled instruction {conc.halt.split(':')[1]} but no stuck path reports it "
                       f"(covering paths: {[p.kind for _, p, _ in covering]})", base_replay)
        compared = wrong = 0
        for j, p, pe in covering:
            if p.kind.startswith("stuck:"):
                ctx.count("covered-by-stuck")
                continue
            if calls_precompile(p.ex):
                ctx.count("covered-by-path-calling-a-precompile(not compared)")
                continue
            ctx.count("path-checked:" + p.kind)
            compared += 1
            # --- C01: the reported end state is what the EVM does
            if not halt_matches(p.kind, conc.halt):
                wrong += 1
                report("C01", f"outcome:{p.kind}-vs-{conc.halt}",
                       f"path {j} reports {p.kind} but the EVM ends in {conc.halt} for an input satisfying the path", dict(base_replay, path=j))
                # --- C02, second sentence ("a branch, jump target ... is discarded only when it is proved infeasible"): every
                # path that admits this input ends at an invalid jump destination although the EVM jumps there and goes on,
                # i.e. a valid jump target (and the behaviour behind it) was discarded
                if (p.kind == "invalidJump" and conc.halt != "invalidJump" and all(q.kind == "invalidJump" for _, q, _ in covering)
                        and rejected_dest_is_valid(p, scn, inp)):
                    report("C02", f"dropped-jump-target:invalidJump-vs-{conc.halt}",
                           f"every path admitting the input ends in invalidJump, the EVM takes the jump and ends in {conc.halt}: "
                           f"a valid jump target was discarded", dict(base_replay, path=j))
                continue
            if p.kind in ("success", "revert"):
                try:
                    got = pe.bytes_of(p.data)
                except D.Unknown as u:
                    ctx.count("eval-unknown-data:" + str(u)[:30])
                    got = None
                if got is not None and got != conc.data:
                    report("C01", f"data:{p.kind}",
                           f"path {j} ({p.kind}) returns {got.hex()} but the EVM returns {conc.data.hex()}", dict(base_replay, path=j, observed=got.hex()))
                    wrong += 1
                    continue
            if p.kind == "success":
                try:
                    ps = post_state(sr, p, pe, scn, conc)
                except D.Unknown as u:
                    ctx.count("eval-unknown-state:" + str(u)[:30])
                    continue
                except Exception as e:  # noqa: BLE001
                    ctx.count("post-state-error:" + type(e).__name__)
                    continue
                for (a, slot), v in conc.storage.items():
                    if slot < PLAIN_SLOT_LIMIT and ps["storage"].get((a, slot), 0) != v:
                        report("C01", "storage", f"path {j}: storage[{a:#x}][{slot:#x}] = {ps['storage'].get((a, slot))} but the EVM has {v:#x}",
                               dict(base_replay, path=j))
                        break
                for (a, slot), v in conc.transient.items():
                    if slot < PLAIN_SLOT_LIMIT and ps["transient"].get((a, slot), 0) != v:
                        report("C01", "transient", f"path {j}: transient[{a:#x}][{slot:#x}] differs from the EVM ({v:#x})", dict(base_replay, path=j))
                        break
                for a, v in conc.balances.items():
                    if ps["balances"].get(a) != v:
                        report("C01", "balance", f"path {j}: balance[{a:#x}] = {ps['balances'].get(a)} but the EVM has {v}", dict(base_replay, path=j))
                        break
                for a, code in conc.codes.items():
                    if a in scn.contracts:
                        continue
                    if ps["codes"].get(a) != code:
                        report("C01", "created-code", f"path {j}: code at {a:#x} differs from the EVM", dict(base_replay, path=j))
                        break
        # --- C02 ("no feasible behaviour is dropped"; "a branch ... is discarded only when it is proved infeasible"): every
        # path that admits this input ends differently from the EVM (halting kind or returned data), so what the EVM does on
        # this input is shown by no reported path. Generated scenarios only: a directed scenario that records a known
        # defect keeps the keys it is recorded under.
        if compared and wrong == compared and not undecided and not flagged and not getattr(report, "directed", lambda: False)():
            report("C02", f"no-path-exhibits-evm-outcome:{conc.halt}",
                   f"every reported path admitting the input ({compared}) ends differently from the EVM ({conc.halt}, data "
                   f"{conc.data.hex()[:128]}): the input's real behaviour is represented by no path", base_replay)
        if not covering and undecided:
            ctx.count("coverage-undecided")   # some path could not be evaluated: no coverage claim either way
        elif not covering:
            ctx.count("uncovered-input")
            if not flagged and sr.escaped is None:
                report("C02", f"uncovered:{conc.halt}",
                       f"no reported path covers an input whose EVM outcome is {conc.halt}, and no bound/stuck flag or warning was raised",
                       base_replay)
            elif sr.bounded_loops:
                ctx.count("uncovered-but-loop-flag")
    return n_cov


def sr_cfg(sr):
    o = sr.sevm.options
    return {"loop": o.loop, "solver_timeout_branching": o.solver_timeout_branching, "symbolic_jump": o.symbolic_jump,
            "storage_layout": o.storage_layout, "symbolic_storage": sr.symbolic_storage}


def choose_inputs(ctx, scn, sr, n_random, pool):
    rng = ctx.rng
    out, seen = [], set()

    def add(i, tag):
        k = i.key()
        if k not in seen:
            seen.add(k)
            out.append(i)
            ctx.count("input:" + tag)

    def with_storage(i):
        # symbolic-storage scenarios: arbitrary initial values of the scalar slots the programs use
        if sr.symbolic_storage:
            for a in scn.contracts:
                for slot in range(8):
                    if rng.random() < 0.5:
                        i.storage[(a, slot)] = rng.choice([1, 2, 3, 7, 9, 0xFF, 1 << 255, rng.randrange(D.W)])
        return i

    for _ in range(n_random):
        add(with_storage(D.random_inputs(rng, scn, pool)), "random")
    # boundary of the documented balance assumption, every scenario: the caller / the executing account holds exactly
    # 2^128 wei and every other account nothing (total supply still within the assumption)
    base = D.random_inputs(rng, scn, pool)
    accts = sorted(set(list(scn.contracts) + [0x2222, 0xCAFE, base.caller]))
    for rich in (base.caller, D.MAIN):
        bal = {a: 0 for a in accts}
        bal[rich] = 1 << 128
        add(with_storage(D.Inputs(list(base.args), base.caller, base.origin, 0, bal, 0)), "boundary-balance")
    # an argument that is the address the first CREATE of the run allocates (a symbolic call / EXTCODE* target may name an
    # account that only comes into existence later in the same transaction)
    for j in range(min(scn.nargs, 2)):
        args = list(base.args)
        args[j] = D.ALLOC_BASE + 1
        add(with_storage(D.Inputs(args, base.caller, base.origin, 0, dict(base.balances), base.baldefault)), "arg-is-first-created-address")
    # solver-found inputs (z3 as a search aid) under a wall-clock budget per scenario
    used = ctx.extra.setdefault("solver_wall_s", 0.0)
    total = SOLVER_TOTAL_S[0 if ctx.tier == "quick" else 1]
    if used >= total:
        ctx.count("input:solver-total-budget-exhausted")
        return out
    t_begin = time.time()
    t_end = t_begin + min(SOLVER_BUDGET_S, total - used)
    # a model of every path (two where cheap); paths visited in random order so a budget cut is not systematic
    order = list(sr.paths)
    rng.shuffle(order)
    for p in order:
        if p.kind.startswith("stuck:"):
            continue
        if time.time() > t_end:
            ctx.count("input:solver-budget-exhausted")
            break
        for m in D.solve_inputs(p.conds, scn, n=2, timeout_ms=700):
            add(m, "path-model")
    # inputs not covered by any path (only sound to ask when no auxiliary symbol hides in the conditions)
    try:
        vs = D.input_vars(scn)
        disj = []
        for p in sr.paths:
            conds = [c for c in p.conds if not D._mentions(c, lambda n: n.startswith("f_inv_sha3"))]
            disj.append(z3.And(conds) if conds else z3.BoolVal(True))
        if disj and time.time() < t_end:
            caps = [z3.ULE(z3.Select(z3.Array("balance_0", z3.BitVecSort(160), z3.BitVecSort(256)), z3.BitVecVal(a, 160)),
                           z3.BitVecVal(1 << 100, 256)) for a in list(scn.contracts) + [0xCAFE] + [D.ALLOC_BASE + i for i in range(1, 6)]]
            for m in D.solve_inputs([z3.Not(z3.Or(disj))] + caps, scn, n=2, timeout_ms=1500):
                add(m, "uncovered-model")
    except z3.Z3Exception:
        pass
    ctx.extra["solver_wall_s"] = used + (time.time() - t_begin)
    return out


def rejected_dest_is_valid(p, scn, inp):
    """the destination the path's InvalidJumpDestError names is a JUMPDEST of the (hole-filled) code of the account under
    test by the EVM's definition (0x5b at an instruction boundary: linear sweep skipping PUSH data)"""
    arg = p.error.args[0] if getattr(p.error, "args", None) else None
    try:
        if isinstance(arg, str):
            dest = int(arg.split("0x")[-1], 16)
        elif hasattr(arg, "as_long"):
            dest = arg.as_long()
        elif hasattr(arg, "value") and isinstance(arg.value, int):
            dest = arg.value
        else:
            dest = int(arg)
    except Exception:  # noqa: BLE001  (symbolic destination: not decided here)
        return False
    code = scn.filled(inp.args)[D.MAIN]
    pc, valid = 0, set()
    while pc < len(code):
        op = code[pc]
        if op == 0x5B:
            valid.add(pc)
        pc += 1 + (op - 0x5F if 0x60 <= op <= 0x7F else 0)
    return dest in valid


def run(ctx, pid, features, n_scenarios, n_random_inputs, cfgs, malformed=0, pool=None, gen=None, corpus=True, corpus_as=None):
    """main loop; violations are reported under `pid` only for the kinds that belong to it (C01: soundness kinds,
    C02: uncovered inputs, C09: everything on call scenarios, C10: handled by its own module)."""
    from . import proggen

    rng = ctx.rng
    t0 = time.time()
    scenarios = []
    for i in range(n_scenarios):
        if gen is not None:
            scn, hist = gen(rng)
        else:
            scn, hist = proggen.gen_scenario(rng, features, pool)
        for k, v in hist.items():
            ctx.count("gen:" + k, v)
        scenarios.append(scn)
    for _ in range(malformed):
        scenarios.append(proggen.gen_malformed(rng))
        ctx.count("gen:malformed")

    current = {"name": None}

    def report(prop, key, what, replay):
        if current["name"]:
            # directed scenario: the key names the scenario, so a recorded finding is identified by its specific input
            if (corpus_as or pid) in current["props"]:
                ctx.violation(f"corpus:{current['name']}|{prop}|{key}", f"[{current['name']}] {what}", replay)
            return
        if prop == pid or pid == "C09":
            ctx.violation(f"{prop}|{key}", what, replay)
        else:
            ctx.count(f"other-property-violation:{prop}|{key}")

    report.directed = lambda: bool(current["name"])

    from . import sevm_corpus

    directed = [(n, s, c, pr) for n, s, c, pr in sevm_corpus.scenarios([corpus_as or pid])] if corpus else []
    for n, *_ in directed:
        ctx.count("corpus:" + n)
    scenarios = [s for _, s, _, _ in directed] + scenarios
    dmeta = {id(s): (n, c, pr) for n, s, c, pr in directed}

    jobs = []
    runs = []
    phase = {"symbolic_run": 0.0, "choose_inputs": 0.0, "reference_evm": 0.0, "compare": 0.0}
    ctx.extra["phase_wall_s"] = phase
    for scn in scenarios:
        cfg = dmeta[id(scn)][1] if id(scn) in dmeta else rng.choice(cfgs)
        if id(scn) not in dmeta and cfg.get("symbolic_storage") and "TLOAD" in classify_program(scn):
            # documented exclusion (known finding, corpus case tload-under-symbolic-storage): transient and persistent
            # storage share the name of their base array, so a TLOAD's emptiness axiom constrains the arbitrary initial
            # persistent storage; generated programs with TLOAD run with concrete (zero) initial storage instead
            cfg = {k: v for k, v in cfg.items() if k != "symbolic_storage"}
            ctx.count("exclusion:symbolic-storage-with-TLOAD")
        _t = time.time()
        sr = D.symbolic_run(scn, **cfg)
        phase["symbolic_run"] += time.time() - _t
        ctx.count(f"paths:{min(len(sr.paths), 9)}")
        for p in sr.paths:
            ctx.count("pathkind:" + p.kind)
        if sr.escaped and sr.escaped.startswith("TimeoutError"):
            ctx.count("skipped:symbolic-run-watchdog")
            continue
        if sr.escaped:
            ctx.count("escaped:" + sr.escaped.split(":")[0])
            if id(scn) in dmeta:
                if (corpus_as or pid) in dmeta[id(scn)][2]:
                    ctx.violation(f"corpus:{dmeta[id(scn)][0]}|C01|escaped:{sr.escaped.split(':')[0]}",
                                  f"[{dmeta[id(scn)][0]}] an internal exception escaped SEVM.run: {sr.escaped[:200]}",
                                  {"contracts": {hex(a): c.hex() for a, c in scn.contracts.items()}, "nargs": scn.nargs, "immutables": {hex(a): v for a, v in scn.immutables.items()}, "config": cfg})
            elif pid in ("C01", "C09"):
                ctx.violation(f"C01|escaped:{sr.escaped.split(':')[0]}",
                              f"an internal exception escaped SEVM.run: {sr.escaped[:200]}",
                              {"contracts": {hex(a): c.hex() for a, c in scn.contracts.items()}, "nargs": scn.nargs, "immutables": {hex(a): v for a, v in scn.immutables.items()}, "config": cfg})
            continue
        _t = time.time()
        inputs = choose_inputs(ctx, scn, sr, n_random_inputs, pool)
        phase["choose_inputs"] += time.time() - _t
        runs.append((scn, sr, inputs))
        for inp in inputs:
            jobs.append((scn, inp))
    _t = time.time()
    concs = D.run_concrete_batch(ctx, jobs)
    phase["reference_evm"] += time.time() - _t
    k = 0
    for scn, sr, inputs in runs:
        cs = concs[k:k + len(inputs)]
        k += len(inputs)
        current["name"], current["props"] = (dmeta[id(scn)][0], dmeta[id(scn)][2]) if id(scn) in dmeta else (None, None)
        _t = time.time()
        compare_scenario(ctx, pid, scn, sr, inputs, cs, report)
        phase["compare"] += time.time() - _t
        for inp, c in zip(inputs, cs):
            ctx.case((tuple(sorted((a, bytes(b)) for a, b in scn.contracts.items())), inp.key()))
            ctx.count("concrete:" + c.halt.split(":")[0])
        if len(ctx.samples) < 4 and sr.paths:
            ctx.sample({"code": scn.main_code().hex(), "callees": len(scn.contracts) - 1, "paths": [p.kind for p in sr.paths][:6],
                        "input": [hex(v) for v in inputs[0].args] if inputs else None, "evm": cs[0].halt if cs else None})
    ctx.extra["programs"] = len(scenarios)
    ctx.extra["gen_wall_s"] = round(time.time() - t0, 1)
