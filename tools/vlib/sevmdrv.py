"""Drive the real SEVM in-process (no forge): build Exec objects the way tests/test_sevm.py does."""
from __future__ import annotations

from .impl import use_repo

use_repo()

from z3 import Array, BitVec, BitVecSort  # noqa: E402

from halmos.__main__ import mk_block, mk_solver  # noqa: E402
from halmos.bytevec import ByteVec  # noqa: E402
from halmos.calldata import FunctionInfo  # noqa: E402
from halmos.config import default_config  # noqa: E402
from halmos.sevm import SEVM, CallContext, Contract, Message, Path  # noqa: E402
from halmos.utils import EVM  # noqa: E402

CALLER = BitVec("msg_sender", 160)
ORIGIN = BitVec("tx_origin", 160)
THIS = BitVec("this_address", 160)
BALANCE = Array("balance_0", BitVecSort(160), BitVecSort(256))
CALLVALUE = BitVec("msg_value", 256)


def mk_args(**overrides):
    args = default_config()
    if overrides:
        from halmos.config import ConfigSource

        args = args.with_overrides(source=ConfigSource.command_line, **overrides)
    return args


def mk_sevm(args=None, **overrides):
    from halmos.mapper import BuildOut

    if BuildOut()._build_out_map is None:  # normally set by halmos' _main from forge's out/ directory
        BuildOut().set_build_out({})
    args = args or mk_args(**overrides)
    return SEVM(args, FunctionInfo("TestContract", "test", "test()", "f8a8fd6d")), args


def mk_ex(sevm, args, code: bytes | Contract, *, calldata: ByteVec | None = None, storage=None, this=THIS,
          caller=CALLER, origin=ORIGIN, value=CALLVALUE, balance=BALANCE, extra_code=None, is_static=False):
    pgm = code if isinstance(code, Contract) else Contract(code)
    message = Message(
        target=this, caller=caller, origin=origin, value=value,
        data=calldata if calldata is not None else ByteVec(), call_scheme=EVM.CALL, is_static=is_static,
    )
    codemap = {this: pgm}
    storages = {this: storage if storage is not None else sevm.mk_storagedata()}
    tstorages = {this: sevm.mk_storagedata()}
    for addr, c in (extra_code or {}).items():
        codemap[addr] = c if isinstance(c, Contract) else Contract(c)
        storages[addr] = sevm.mk_storagedata()
        tstorages[addr] = sevm.mk_storagedata()
    return sevm.mk_exec(
        code=codemap, storage=storages, transient_storage=tstorages, balance=balance,
        block=mk_block(), context=CallContext(message), pgm=pgm, path=Path(mk_solver(args)),
    )


def run_one_insn(sevm, args, opcode: int, stack_top_first):
    """execute `<opcode> STOP` with the given stack (top of stack first); returns (exs, ex0)"""
    ex = mk_ex(sevm, args, bytes([opcode, 0x00]))
    ex.st.stack.extend(reversed(stack_top_first))
    return list(sevm.run(ex))
