"""Shared helpers of the C11 / C04 / C16 harnesses: import halmos, assemble small EVM programs, drive the real SEVM
in-process on symbolic calldata, build `PathContext`s, pseudo-random interpretations for uninterpreted functions."""
from __future__ import annotations

import ast
import hashlib
import tempfile
from pathlib import Path as FsPath

from .impl import use_repo
from .runner import REPO

use_repo()

import z3  # noqa: E402
from halmos.__main__ import mk_block, mk_solver  # noqa: E402
from halmos.bitvec import HalmosBitVec as BV  # noqa: E402
from halmos.bytevec import ByteVec  # noqa: E402
from halmos.calldata import FunctionInfo  # noqa: E402
from halmos.config import ConfigSource, default_config  # noqa: E402
from halmos.sevm import SEVM, CallContext, Contract, Message, Path, SMTQuery, con  # noqa: E402
from halmos.solve import ContractContext, FunctionContext, PathContext, SolvingContext  # noqa: E402
from halmos.utils import EVM  # noqa: E402

OPS = dict(STOP=0, ADD=1, MUL=2, SUB=3, DIV=4, SDIV=5, MOD=6, SMOD=7, ADDMOD=8, MULMOD=9, EXP=0xA, SIGNEXTEND=0xB,
           LT=0x10, GT=0x11, SLT=0x12, SGT=0x13, EQ=0x14, ISZERO=0x15, AND=0x16, OR=0x17, XOR=0x18, NOT=0x19, SHL=0x1B, SHR=0x1C, SAR=0x1D,
           ADDRESS=0x30, CALLDATALOAD=0x35, CODESIZE=0x38, CODECOPY=0x39, EXTCODECOPY=0x3C, POP=0x50, MLOAD=0x51, MSTORE=0x52, SLOAD=0x54, SSTORE=0x55, TLOAD=0x5C, TSTORE=0x5D, GAS=0x5A, CALL=0xF1, STATICCALL=0xFA, RETURNDATASIZE=0x3D, JUMP=0x56, JUMPI=0x57, JUMPDEST=0x5B, DUP1=0x80, DUP2=0x81, SWAP1=0x90,
           RETURN=0xF3, REVERT=0xFD, INVALID=0xFE)


def asm(items) -> bytes:
    """items: opcode names, ('push', int | label-name), ('label', name)"""
    labels, out = {}, bytearray()
    for resolve in (False, True):
        out = bytearray()
        for it in items:
            if isinstance(it, tuple) and it[0] == "push":
                v = it[1]
                if isinstance(v, str):
                    v = labels.get(v, 0) if resolve else 0
                    out.extend([0x61, v >> 8, v & 0xFF])
                else:
                    b = v.to_bytes(max(1, (v.bit_length() + 7) // 8), "big")
                    out.append(0x5F + len(b))
                    out.extend(b)
            elif isinstance(it, tuple) and it[0] == "label":
                labels[it[1]] = len(out)
                out.append(0x5B)
            elif isinstance(it, tuple) and it[0] == "raw":
                out.extend(it[1])
            else:
                out.append(OPS[it])
    return bytes(out)


ARITH = {"DIV": 2, "MOD": 2, "MUL": 2, "SDIV": 2, "SMOD": 2, "ADDMOD": 3, "MULMOD": 3, "EXP": 2, "ADD": 2, "SUB": 2, "AND": 2}
CMPS = ["LT", "GT", "EQ", "SLT", "SGT"]


def gen_program(rng, nblocks, ints, nvars=3, force_ops=None, ops=None):
    """A chain of `nblocks` two-way branches; each condition compares an arithmetic expression over calldata words
    (and constants) with a constant.  Both branches continue, so there are up to 2^nblocks paths.  The last block may
    end in REVERT on one side.  Returns (items, description)."""
    items, desc = [], []

    def operand():
        r = rng.random()
        if r < 0.7:
            return [("push", 32 * rng.randrange(nvars)), "CALLDATALOAD"]
        return [("push", rng.choice(ints))]

    def expr(depth, forced=None):
        op = forced or rng.choice(list(ops or ARITH))
        code = []
        subs = []
        for _ in range(ARITH[op]):
            if depth > 0 and rng.random() < 0.3:
                c, d = expr(depth - 1)
                subs.append(d)
            else:
                c = operand()
                subs.append("v" if len(c) == 2 else str(c[0][1]))
            code = c + code  # last generated is deepest in the stack = last operand
        return code + [op], f"{op}({','.join(reversed(subs))})"

    for i in range(nblocks):
        forced = force_ops[i] if force_ops and i < len(force_ops) else None
        c, d = expr(1, forced)
        cmp_ = rng.choice(CMPS)
        k = rng.choice(ints)
        items += c + [("push", k), cmp_, ("push", f"L{i}"), "JUMPI", ("label", f"L{i}")]
        desc.append(f"{cmp_}({k},{d})")
    end = rng.choice(["STOP", "REVERT", "SPLIT"])
    if end == "STOP":
        items += ["STOP"]
    elif end == "REVERT":
        items += [("push", 0), ("push", 0), "REVERT"]
    else:
        items += [("push", 0), "CALLDATALOAD", ("push", rng.choice(ints)), "GT", ("push", "LE"), "JUMPI", "STOP", ("label", "LE"),
                  ("push", 0), ("push", 0), "REVERT"]
    return items, ";".join(desc) + ";" + end


class Engine:
    """one real SEVM + fixed symbolic environment"""

    def __init__(self, nvars=3):
        self.base_args = default_config()
        self.fun_info = FunctionInfo("T", "test", "test()", "f8a8fd6d")
        self.sevm = SEVM(self.base_args, self.fun_info)
        self.caller = z3.BitVec("msg_sender", 160)
        self.origin = z3.BitVec("tx_origin", 160)
        self.this = z3.BitVec("this_address", 160)
        self.balance = z3.Array("balance_0", z3.BitVecSort(160), z3.BitVecSort(256))
        self.vars = [z3.BitVec(f"p_{n}_uint256", 256) for n in ["x", "y", "z", "u", "v"][:nvars]]

    def args(self, **over):
        return self.base_args.with_overrides(source=ConfigSource.command_line, **over)

    def run(self, code: bytes, parent_path=None):
        pgm = Contract(code)
        data = ByteVec()
        for v in self.vars:
            data.append(BV(v))
        msg = Message(target=self.this, caller=self.caller, origin=self.origin, value=con(0), data=data, call_scheme=EVM.CALL)
        solver = mk_solver(self.base_args)
        path = Path(solver)
        if parent_path is not None:
            path.extend_path(parent_path)
        ex = self.sevm.mk_exec(
            code={self.this: pgm}, storage={self.this: self.sevm.mk_storagedata()},
            transient_storage={self.this: self.sevm.mk_storagedata()}, balance=self.balance, block=mk_block(),
            context=CallContext(msg), pgm=pgm, path=path,
        )
        return list(self.sevm.run(ex))

    def run_iter(self, code: bytes):
        """like run(), but lazily: paths come out one by one as the DFS exploration produces them (parked siblings stay
        on SEVM's worklist), so the caller can drop each Exec before the next one is activated — as run_test does"""
        pgm = Contract(code)
        data = ByteVec()
        for v in self.vars:
            data.append(BV(v))
        msg = Message(target=self.this, caller=self.caller, origin=self.origin, value=con(0), data=data, call_scheme=EVM.CALL)
        path = Path(mk_solver(self.base_args))
        ex = self.sevm.mk_exec(
            code={self.this: pgm}, storage={self.this: self.sevm.mk_storagedata()},
            transient_storage={self.this: self.sevm.mk_storagedata()}, balance=self.balance, block=mk_block(),
            context=CallContext(msg), pgm=pgm, path=path,
        )
        del path
        yield from self.sevm.run(ex)


def new_solving_ctx(tmpdir=None):
    d = FsPath(tmpdir or tempfile.mkdtemp(prefix="verif-solve-"))
    return SolvingContext(dump_dir=d)


def path_ctx(args, path_id, solving_ctx, query, refined=False):
    return PathContext(args=args, path_id=path_id, solving_ctx=solving_ctx, query=query, is_refined=refined)


def prf(seed: str):
    """a deterministic pseudo-random interpretation for uninterpreted functions (name, args) -> value"""

    def f(name, args, sort):
        h = hashlib.blake2b(f"{seed}|{name}|{args}".encode(), digest_size=64).digest()
        v = int.from_bytes(h, "big")
        if sort.kind() == z3.Z3_BV_SORT:
            return v % (1 << sort.size())
        if sort.kind() == z3.Z3_BOOL_SORT:
            return bool(v & 1)
        raise ValueError(f"prf: sort {sort}")

    return f


def harvest_ints(files_funcs):
    """integer literals in the given functions: [(relative path under src/halmos, {function names})]"""
    vals = set()
    for rel, names in files_funcs:
        tree = ast.parse((REPO / "src/halmos" / rel).read_text())
        for n in ast.walk(tree):
            if isinstance(n, ast.FunctionDef) and n.name in names:
                for c in ast.walk(n):
                    if isinstance(c, ast.Constant) and isinstance(c.value, int) and not isinstance(c.value, bool):
                        vals.add(c.value)
    out = set()
    for v in vals:
        out.update({v - 1, v, v + 1})
    return sorted(x for x in out if x >= 0)


def mk_function_ctx(args, name="test", contract="T"):
    """a real FunctionContext (its __post_init__ picks the dump directory and creates the SolvingContext)"""
    import contextlib
    import io

    cctx = ContractContext(args=args, name=contract, funsigs=[], creation_hexcode="", deployed_hexcode="", abi={},
                           method_identifiers={}, contract_json={}, libs={}, build_out_map={})
    with contextlib.redirect_stdout(io.StringIO()):
        return FunctionContext(args=args, info=FunctionInfo(contract, name, f"{name}()", "f8a8fd6d"), solver=None, contract_ctx=cctx)


def close_function_ctx(fctx):
    import contextlib

    fctx.thread_pool.shutdown(wait=False)
    with contextlib.suppress(Exception):
        fctx.solving_ctx.executor.shutdown(wait=False)
    with contextlib.suppress(Exception):
        fctx.solving_ctx.dump_dir.cleanup()


def build_cond(spec, env):
    """tiny condition language for corpus cases: ["eq"|"ne"|"ult"|"ugt", var, const] | ["muleq"|"diveq"|"modeq", var, var, const]"""
    from halmos.sevm import f_div, f_mod, f_mul

    op = spec[0]

    def v(n):
        if n not in env:
            env[n] = z3.BitVec(n, 256)
        return env[n]

    def k(c):
        return z3.BitVecVal(int(c), 256)

    if op == "eq":
        return v(spec[1]) == k(spec[2])
    if op == "ne":
        return v(spec[1]) != k(spec[2])
    if op == "ult":
        return z3.ULT(v(spec[1]), k(spec[2]))
    if op == "ugt":
        return z3.UGT(v(spec[1]), k(spec[2]))
    if op == "muleq":
        return f_mul[256](v(spec[1]), v(spec[2])) == k(spec[3])
    if op == "diveq":
        return f_div(v(spec[1]), v(spec[2])) == k(spec[3])
    if op == "modeq":
        return f_mod[256](v(spec[1]), v(spec[2])) == k(spec[3])
    raise ValueError(f"cond spec {spec}")


def dumpdir_flow(eng, scenario, base_dir, **over):
    """scenario: [{"contract", "function", "paths": [[cond spec, ...], ...]}, ...] — every context is a fresh FunctionContext with
    --dump-smt-directory base_dir (so same-named functions share base_dir/<function>/) and path ids restarting at 0.
    Yields one dict per path with the real PathContext ready to be solved; the context is closed after its last path."""
    env = {}
    for ci, c in enumerate(scenario):
        args = eng.args(dump_smt_directory=str(base_dir), solver_timeout_assertion=8.0, **over)
        fctx = mk_function_ctx(args, c["function"], c["contract"])
        for pid, specs in enumerate(c["paths"]):
            p = Path(mk_solver(args))
            for sp in specs:
                p.append(build_cond(sp, env))
            q = p.to_smt2(args)
            pc = PathContext(args=args, path_id=pid, solving_ctx=fctx.solving_ctx, query=q)
            yield {"ci": ci, "pid": pid, "path": p, "fctx": fctx, "pc": pc, "args": args, "specs": specs, "contract": c["contract"], "function": c["function"]}
        fctx.thread_pool.shutdown(wait=False)


def random_dumpdir_scenario(rng, rounds=2):
    """same-named test in 2-3 contracts, 1-3 paths each, then the whole thing again (a rerun into the same directory) with other constants"""
    fn = rng.choice(["check_balance", "test_x", "invariant_sum"])
    out = []
    for r in range(rounds):
        for contract in rng.sample(["A", "B", "C"], rng.choice([2, 2, 3])):
            paths = []
            for _ in range(rng.randrange(1, 4)):
                kind = rng.random()
                c1 = rng.randrange(2, 50)
                if kind < 0.35:
                    specs = [["eq", "halmos_x_uint256_00", c1]]
                elif kind < 0.55:
                    specs = [["ult", "halmos_x_uint256_00", c1], ["ugt", "halmos_x_uint256_00", c1 + rng.choice([0, 5])]]   # unsat
                elif kind < 0.75:
                    a, b = rng.choice([(3, 5), (2, 7), (3, 7), (5, 5)])
                    specs = [["muleq", "halmos_x_uint256_00", "halmos_y_uint256_00", a * b], ["eq", "halmos_x_uint256_00", a]]
                elif kind < 0.9:
                    specs = [["eq", "halmos_y_uint256_00", c1], ["ne", "halmos_x_uint256_00", c1], ["ult", "halmos_x_uint256_00", c1 + 2], ["ugt", "halmos_x_uint256_00", c1 - 2]]
                else:
                    specs = [["modeq", "halmos_x_uint256_00", "halmos_y_uint256_00", 2], ["eq", "halmos_y_uint256_00", 5], ["eq", "halmos_x_uint256_00", 2 + 5 * (c1 % 7)]]
                paths.append(specs)
            out.append({"contract": contract, "function": fn, "paths": paths})
    return out
