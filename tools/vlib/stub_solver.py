#!/venv/bin/python
"""Scripted stand-in for an SMT solver, driven through halmos' `--solver-command`.

    halmos ... --solver-command "/venv/bin/python -S /verif/tools/vlib/stub_solver.py"      (halmos appends <file.smt2>)

The reply for each query comes from a JSON script whose path is in the environment variable VERIF_STUB_SCRIPT
(see `vlib.stub_solver.Script` for a builder). Queries are matched by *what they are*, never by arrival order:

    {"dir": "/tmp/x/stub",                     # where the stub logs invocations / completion markers (optional)
     "default": {"reply": "unsat"},            # used when no rule matches (default default: unsat)
     "rules": [ {"match": {"fn": "check_a",    # name of the dump sub-directory = test function name (halmos writes
                                               #   <dump_smt_directory>/<function name>/<path_id>[.refined].smt2)
                           "path": 3,          # path id (integer) from the file name
                           "refined": false,   # whether it is the `.refined.smt2` re-query
                           "contains": "#x2a", # substring of the query text (e.g. a marker constant)
                           "regex": "..."},    # regular expression searched in the query text
                 ... reply fields ... } ] }    # first matching rule wins; all match keys are optional (conjunction)

Reply fields:
    "reply":  "sat" | "sat_abstract" | "unsat" | "unknown" | "timeout" | "garbage" | "empty" | "exit" | "binary" | "real"
              ("binary": bytes that are not valid UTF-8 -> halmos' text-mode `communicate` raises UnicodeDecodeError)
    "model":  {"p_x_uint256": 42, ...}   for sat*: value per declared variable; keys match a declared name exactly or as
              a prefix (halmos appends _<uid>_<nn>); undeclared keys are emitted too if "emit_undeclared" is true;
              every declared p_*/halmos_* variable without a value gets 0.
    "format": "hex" | "bin" | "dec"      how model values are printed (#x.. / #b.. / (_ bvN w))
    "core":   "all" | "none" | "empty" | [ids] | k  for unsat ("none": no core line -> parse gives None; "empty": `()` -> []) when the query names assertions: ids to print in the unsat core
              ("all" default; an int k = the first k names); "error_line": true adds the optional (error ...) line;
              "core_wrap": w prints w names per line (yices wraps at 20), "core_style": "cvc5" one name per line
    "stdout"/"stderr"/"returncode": override the raw output / exit code of any reply kind
    "delay_ms": sleep before replying;   "after": ["check_a/1", "check_a/2.refined"]: first wait until those queries
              have completed (their completion markers exist in "dir"), then sleep delay_ms — this fixes the completion
              ORDER independently of process start-up jitter; "after_timeout_s" (default 20) bounds that wait.
    "ignore_sigterm": true — the stub ignores SIGTERM (halmos then SIGKILLs it after its 0.5 s grace period)
    "sleep_s": for "timeout": how long to hang (default 3600; halmos kills the process at its own timeout)
    "real":   command list for reply "real" (default ["z3"]): exec the real solver on the file.

Every invocation appends one JSON line to <dir>/log.jsonl at start ("ev": "start") and at completion ("ev": "done").
"""
import json
import os
import re
import sys
import time

ENV = "VERIF_STUB_SCRIPT"


def _key_of(path):
    base = os.path.basename(path)
    fn = os.path.basename(os.path.dirname(path))
    m = re.match(r"^(\d+)(\.refined)?\.smt2$", base)
    if not m:
        return fn, None, False
    return fn, int(m.group(1)), bool(m.group(2))


def _qid(fn, pid, refined):
    return f"{fn}/{pid}{'.refined' if refined else ''}"


def _matches(m, fn, pid, refined, text):
    if "fn" in m and m["fn"] != fn:
        return False
    if "path" in m and m["path"] != pid:
        return False
    if "refined" in m and bool(m["refined"]) != refined:
        return False
    if "contains" in m and m["contains"] not in text:
        return False
    if "regex" in m and not re.search(m["regex"], text):
        return False
    return True


DECL = re.compile(r"\(declare-(?:fun|const)\s+\|?([^\s|()]+)\|?\s+(?:\(\s*\)\s+)?\(_\s+BitVec\s+(\d+)\)\s*\)")
NAMED = re.compile(r":named\s+(<[0-9]+>)")


def _fmt(v, w, how):
    v &= (1 << w) - 1
    if how == "bin":
        return "#b" + format(v, f"0{w}b")
    if how == "dec":
        return f"(_ bv{v} {w})"
    if w % 4 == 0:
        return "#x" + format(v, f"0{w // 4}x")
    return "#b" + format(v, f"0{w}b")


def _model(rule, text, abstract):
    want = rule.get("model", {}) or {}
    how = rule.get("format", "hex")
    lines = ["("]
    used = set()
    for name, w in DECL.findall(text):
        if not (name.startswith("p_") or name.startswith("halmos_")):
            continue
        w = int(w)
        val = 0
        for k, v in want.items():
            if name == k or name.startswith(k + "_"):
                val = int(v)
                used.add(k)
                break
        lines.append(f"  (define-fun {name} () (_ BitVec {w}) {_fmt(val, w, how)})")
    if rule.get("emit_undeclared"):
        for k, v in want.items():
            if k not in used:
                lines.append(f"  (define-fun {k} () (_ BitVec 256) {_fmt(int(v), 256, how)})")
    if abstract:
        lines.append(
            "  (define-fun f_evm_bvmul_256 ((x!0 (_ BitVec 256)) (x!1 (_ BitVec 256))) (_ BitVec 256)\n"
            "    #x0000000000000000000000000000000000000000000000000000000000000000)"
        )
    lines.append(")")
    return "\n".join(lines) + "\n"


def _core(rule, text):
    names = NAMED.findall(text)
    c = rule.get("core", "all")
    if c == "empty":
        return "()\n"   # parses to the EMPTY list (not None)
    if not names:
        return ""
    if c == "none":
        return ""
    if c == "all":
        sel = names
    elif isinstance(c, int):
        sel = names[:c]
    else:
        sel = [x if str(x).startswith("<") else f"<{x}>" for x in c]
    return format_core(sel, rule.get("core_wrap"), rule.get("core_style", "yices"))


def format_core(sel, wrap=None, style="yices"):
    """how solvers print `(get-unsat-core)`: z3 on one line; yices wraps after 20 names (continuation lines start with a
    space); cvc5 prints one name per line between `(` and `)` lines"""
    if style == "cvc5":
        return "(\n" + "".join(f"{x}\n" for x in sel) + ")\n"
    if wrap:
        rows = [" ".join(sel[i:i + wrap]) for i in range(0, len(sel), wrap)] or [""]
        return "(" + "\n ".join(rows) + ")\n"
    return "(" + " ".join(sel) + ")\n"


def render(rule, text):
    """-> (stdout, stderr, returncode, hang_seconds)"""
    kind = rule.get("reply", "unsat")
    out, err, rc, hang = "", "", 0, 0
    if kind == "sat":
        out = "sat\n" + _model(rule, text, False)
    elif kind == "sat_abstract":
        out = "sat\n" + _model(rule, text, True)
    elif kind == "unsat":
        out = "unsat\n"
        if rule.get("error_line"):
            out += '(error "line 7 column 10: model is not available")\n'
        out += _core(rule, text)
    elif kind == "unknown":
        out = "unknown\n"
    elif kind == "timeout":
        hang = float(rule.get("sleep_s", 3600))
    elif kind == "garbage":
        out = "Segmentation fault (core dumped)\n"
    elif kind == "empty":
        out = ""
    elif kind == "exit":
        rc = 1
        err = "stub: fatal error\n"
    elif kind == "binary":
        out = ""
    else:
        out, err, rc = f"stub: unknown reply kind {kind}\n", "bad script\n", 3
    if "stdout" in rule:
        out = rule["stdout"]
    if "stderr" in rule:
        err = rule["stderr"]
    if "returncode" in rule:
        rc = int(rule["returncode"])
    return out, err, rc, hang


def _log(d, rec):
    if not d:
        return
    try:
        fd = os.open(os.path.join(d, "log.jsonl"), os.O_WRONLY | os.O_APPEND | os.O_CREAT, 0o644)
        try:
            os.write(fd, (json.dumps(rec) + "\n").encode())
        finally:
            os.close(fd)
    except OSError:
        pass


def _marker(d, qid):
    return os.path.join(d, qid.replace("/", "__") + ".done")


def main(argv):
    if len(argv) < 2:
        sys.stderr.write("usage: stub_solver.py <file.smt2>\n")
        return 2
    path = argv[-1]
    script_path = os.environ.get(ENV)
    if not script_path:
        sys.stderr.write(f"stub_solver: {ENV} is not set\n")
        return 2
    with open(script_path) as f:
        script = json.load(f)
    try:
        with open(path) as f:
            text = f.read()
    except OSError as e:
        sys.stderr.write(f"stub_solver: cannot read query: {e}\n")
        return 2
    fn, pid, refined = _key_of(path)
    qid = _qid(fn, pid, refined)
    d = script.get("dir")
    rule = None
    idx = -1
    for i, r in enumerate(script.get("rules", [])):
        if _matches(r.get("match", {}), fn, pid, refined, text):
            rule, idx = r, i
            break
    if rule is None:
        rule = script.get("default", {"reply": "unsat"})
    _log(d, {"ev": "start", "q": qid, "rule": idx, "reply": rule.get("reply", "unsat"), "t": time.time(), "pid": os.getpid()})

    if rule.get("reply") == "real":
        cmd = list(rule.get("real", ["z3"])) + [path]
        if rule.get("delay_ms"):
            time.sleep(rule["delay_ms"] / 1000.0)
        _log(d, {"ev": "exec", "q": qid, "t": time.time()})
        os.execvp(cmd[0], cmd)

    if rule.get("ignore_sigterm"):
        import signal
        signal.signal(signal.SIGTERM, signal.SIG_IGN)

    waited_ok = True
    if d and rule.get("after"):
        deadline = time.time() + float(rule.get("after_timeout_s", 20))
        for dep in rule["after"]:
            while not os.path.exists(_marker(d, dep)):
                if time.time() > deadline:
                    waited_ok = False
                    break
                time.sleep(0.002)
    if rule.get("delay_ms"):
        time.sleep(rule["delay_ms"] / 1000.0)

    out, err, rc, hang = render(rule, text)
    if hang:
        time.sleep(hang)
    if d:
        try:
            with open(_marker(d, qid), "w") as f:
                f.write(str(time.time()))
        except OSError:
            pass
    _log(d, {"ev": "done", "q": qid, "t": time.time(), "rc": rc, "first": out.split("\n", 1)[0], "waited_ok": waited_ok})
    if rule.get("reply") == "binary" and "stdout" not in rule:
        os.write(1, b"\xff\xfe\x00\x80sat\n")
    sys.stdout.write(out)
    sys.stdout.flush()
    if err:
        sys.stderr.write(err)
        sys.stderr.flush()
    return rc


# ------------------------------------------------------------------------------------------------ builder (harness side)


class Script:
    """Build a stub script file; use as a context manager to set/unset VERIF_STUB_SCRIPT.

        with Script(tmpdir) as s:
            s.rule(dict(fn="check_a", path=1), reply="sat", model={"p_x_uint256": 42}, delay_ms=40)
            s.default(reply="unsat")
            s.write()
            ... run halmos with solver_command=s.command ...
            s.log()   # list of start/done records
    """

    def __init__(self, directory):
        self.dir = os.path.join(str(directory), "stub")
        os.makedirs(self.dir, exist_ok=True)
        self.path = os.path.join(self.dir, "script.json")
        self.data = {"dir": self.dir, "default": {"reply": "unsat"}, "rules": []}
        self._old = None

    command = f"/venv/bin/python -S {os.path.abspath(__file__)}"

    def rule(self, match=None, **reply):
        self.data["rules"].append({"match": dict(match or {}), **reply})
        return self

    def default(self, **reply):
        self.data["default"] = reply
        return self

    def write(self):
        with open(self.path, "w") as f:
            json.dump(self.data, f)
        return self.path

    def reset_markers(self):
        for n in os.listdir(self.dir):
            if n.endswith(".done") or n == "log.jsonl":
                os.unlink(os.path.join(self.dir, n))

    def log(self):
        p = os.path.join(self.dir, "log.jsonl")
        if not os.path.exists(p):
            return []
        with open(p) as f:
            return [json.loads(line) for line in f if line.strip()]

    def completion_order(self):
        return [r["q"] for r in sorted((r for r in self.log() if r["ev"] == "done"), key=lambda r: r["t"])]

    def __enter__(self):
        self._old = os.environ.get(ENV)
        os.environ[ENV] = self.path
        return self

    def __exit__(self, *a):
        if self._old is None:
            os.environ.pop(ENV, None)
        else:
            os.environ[ENV] = self._old


if __name__ == "__main__":
    sys.exit(main(sys.argv))
