"""Evaluate a z3 term under a valuation with the *standard interpretation* of halmos' uninterpreted
functions (f_evm_* = exact EVM arithmetic with by-zero = 0, f_sha3_* = Keccak-256).

Independent of z3's own evaluator: a plain recursive interpreter over the AST, Python big ints.
Used by the correspondence harnesses as the reference for "what does this term denote".
"""
from __future__ import annotations

import z3
from z3 import (
    Z3_OP_ADD, Z3_OP_AND, Z3_OP_BADD, Z3_OP_BAND, Z3_OP_BASHR, Z3_OP_BLSHR, Z3_OP_BMUL, Z3_OP_BNEG,
    Z3_OP_BNOT, Z3_OP_BNUM, Z3_OP_BOR, Z3_OP_BSDIV, Z3_OP_BSDIV_I, Z3_OP_BSHL, Z3_OP_BSMOD, Z3_OP_BSMOD_I,
    Z3_OP_BSREM, Z3_OP_BSREM_I, Z3_OP_BSUB, Z3_OP_BUDIV, Z3_OP_BUDIV_I, Z3_OP_BUREM, Z3_OP_BUREM_I,
    Z3_OP_BXOR, Z3_OP_CONCAT, Z3_OP_DISTINCT, Z3_OP_EQ, Z3_OP_EXTRACT, Z3_OP_FALSE, Z3_OP_IMPLIES,
    Z3_OP_ITE, Z3_OP_NOT, Z3_OP_OR, Z3_OP_SELECT, Z3_OP_SGEQ, Z3_OP_SGT, Z3_OP_SIGN_EXT, Z3_OP_SLEQ,
    Z3_OP_SLT, Z3_OP_STORE, Z3_OP_TRUE, Z3_OP_UGEQ, Z3_OP_UGT, Z3_OP_ULEQ, Z3_OP_ULT, Z3_OP_UNINTERPRETED,
    Z3_OP_XOR, Z3_OP_ZERO_EXT, Z3_OP_CONST_ARRAY, Z3_OP_BXNOR, Z3_OP_BNAND, Z3_OP_BNOR, Z3_OP_BCOMP,
    Z3_OP_ROTATE_LEFT, Z3_OP_ROTATE_RIGHT, Z3_OP_REPEAT,
)


class Unknown(Exception):
    """an uninterpreted symbol with no value in the environment"""


def keccak(data: bytes) -> int:
    from eth_hash.auto import keccak as k

    return int.from_bytes(k(data), "big")


def to_signed(x, n):
    return x - (1 << n) if x >> (n - 1) else x


def _sdiv(a, b, n):
    if b == 0:
        return None
    sa, sb = to_signed(a, n), to_signed(b, n)
    q = abs(sa) // abs(sb)
    if (sa < 0) != (sb < 0):
        q = -q
    return q % (1 << n)


def _srem(a, b, n):
    if b == 0:
        return None
    sa, sb = to_signed(a, n), to_signed(b, n)
    r = abs(sa) % abs(sb)
    if sa < 0:
        r = -r
    return r % (1 << n)


def _smod(a, b, n):  # SMT-LIB bvsmod: sign follows divisor
    if b == 0:
        return None
    sa, sb = to_signed(a, n), to_signed(b, n)
    return (sa % sb) % (1 << n)


class Arr:
    """value of an array-sorted term: default function + finite overrides"""

    def __init__(self, base, over=None):
        self.base = base  # callable idx_tuple -> int
        self.over = dict(over or {})

    def get(self, idx):
        if idx in self.over:
            return self.over[idx]
        return self.base(idx)

    def set(self, idx, v):
        o = dict(self.over)
        o[idx] = v
        return Arr(self.base, o)


class Evaluator:
    def __init__(self, env=None, funcs=None, default_uf=None, smtlib_div0=False):
        """env: name -> int/bool (constants); funcs: name -> python callable(*ints) for uninterpreted functions;
        default_uf: callable(name, args, width) used for unknown functions/constants (else Unknown is raised).
        smtlib_div0: by-zero semantics of interpreted bvudiv/bvurem etc. (True = SMT-LIB: all-ones / dividend;
        they only matter for terms built without abstraction)."""
        self.env = env or {}
        self.funcs = funcs or {}
        self.default_uf = default_uf
        self.memo = {}

    def __call__(self, t):
        return self.ev(t)

    def ev(self, t):
        key = t.get_id()
        r = self.memo.get(key)
        if r is not None and r[0].eq(t):
            return r[1]
        v = self._ev(t)
        self.memo[key] = (t, v)
        return v

    def _width(self, t):
        s = t.sort()
        return s.size() if s.kind() == z3.Z3_BV_SORT else None

    def _ev(self, t):
        d = t.decl()
        k = d.kind()
        ch = t.children()
        ev = self.ev
        if k == Z3_OP_BNUM:
            return t.as_long()
        if k == Z3_OP_TRUE:
            return True
        if k == Z3_OP_FALSE:
            return False
        n = self._width(t)
        M = (1 << n) if n else None
        if k == Z3_OP_UNINTERPRETED:
            name = d.name()
            if not ch:
                if name in self.env:
                    v = self.env[name]
                    if n is not None:
                        return int(v) % M
                    return v
                if self.default_uf:
                    return self.default_uf(name, (), t.sort())
                raise Unknown(name)
            args = tuple(ev(c) for c in ch)
            f = self.funcs.get(name) or std_func(name)
            if f is not None:
                r = f(*args)
                return r % M if n else r
            if self.default_uf:
                return self.default_uf(name, args, t.sort())
            raise Unknown(name)
        if k == Z3_OP_BADD:
            return sum(ev(c) for c in ch) % M
        if k == Z3_OP_BMUL:
            r = 1
            for c in ch:
                r = r * ev(c) % M
            return r
        if k == Z3_OP_BSUB:
            r = ev(ch[0])
            for c in ch[1:]:
                r -= ev(c)
            return r % M
        if k == Z3_OP_BNEG:
            return (-ev(ch[0])) % M
        if k in (Z3_OP_BUDIV, Z3_OP_BUDIV_I):
            a, b = ev(ch[0]), ev(ch[1])
            return (M - 1) if b == 0 else a // b
        if k in (Z3_OP_BUREM, Z3_OP_BUREM_I):
            a, b = ev(ch[0]), ev(ch[1])
            return a if b == 0 else a % b
        if k in (Z3_OP_BSDIV, Z3_OP_BSDIV_I):
            a, b = ev(ch[0]), ev(ch[1])
            r = _sdiv(a, b, n)
            if r is None:
                return 1 if to_signed(a, n) < 0 else M - 1
            return r
        if k in (Z3_OP_BSREM, Z3_OP_BSREM_I):
            a, b = ev(ch[0]), ev(ch[1])
            r = _srem(a, b, n)
            return a if r is None else r
        if k in (Z3_OP_BSMOD, Z3_OP_BSMOD_I):
            a, b = ev(ch[0]), ev(ch[1])
            r = _smod(a, b, n)
            return a if r is None else r
        if k == Z3_OP_BAND:
            r = M - 1
            for c in ch:
                r &= ev(c)
            return r
        if k == Z3_OP_BOR:
            r = 0
            for c in ch:
                r |= ev(c)
            return r
        if k == Z3_OP_BXOR:
            r = 0
            for c in ch:
                r ^= ev(c)
            return r
        if k == Z3_OP_BNOT:
            return (~ev(ch[0])) % M
        if k == Z3_OP_BNAND:
            return (~(ev(ch[0]) & ev(ch[1]))) % M
        if k == Z3_OP_BNOR:
            return (~(ev(ch[0]) | ev(ch[1]))) % M
        if k == Z3_OP_BXNOR:
            return (~(ev(ch[0]) ^ ev(ch[1]))) % M
        if k == Z3_OP_BCOMP:
            return 1 if ev(ch[0]) == ev(ch[1]) else 0
        if k == Z3_OP_BSHL:
            a, b = ev(ch[0]), ev(ch[1])
            return 0 if b >= n else (a << b) % M
        if k == Z3_OP_BLSHR:
            a, b = ev(ch[0]), ev(ch[1])
            return 0 if b >= n else a >> b
        if k == Z3_OP_BASHR:
            a, b = ev(ch[0]), ev(ch[1])
            sa = to_signed(a, n)
            if b >= n:
                return (M - 1) if sa < 0 else 0
            return (sa >> b) % M
        if k == Z3_OP_CONCAT:
            r = 0
            for c in ch:
                r = (r << c.size()) | ev(c)
            return r
        if k == Z3_OP_EXTRACT:
            hi, lo = d.params()
            return (ev(ch[0]) >> lo) & ((1 << (hi - lo + 1)) - 1)
        if k == Z3_OP_ZERO_EXT:
            return ev(ch[0])
        if k == Z3_OP_SIGN_EXT:
            w = ch[0].size()
            return to_signed(ev(ch[0]), w) % M
        if k == Z3_OP_REPEAT:
            (cnt,) = d.params()
            w = ch[0].size()
            v = ev(ch[0])
            r = 0
            for _ in range(cnt):
                r = (r << w) | v
            return r
        if k in (Z3_OP_ROTATE_LEFT, Z3_OP_ROTATE_RIGHT):
            (cnt,) = d.params()
            v = ev(ch[0])
            cnt %= n
            if k == Z3_OP_ROTATE_RIGHT:
                cnt = (n - cnt) % n
            return ((v << cnt) | (v >> (n - cnt))) % M
        if k == Z3_OP_ITE:
            return ev(ch[1]) if ev(ch[0]) else ev(ch[2])
        if k == Z3_OP_EQ:
            a, b = ev(ch[0]), ev(ch[1])
            if isinstance(a, Arr) or isinstance(b, Arr):
                raise Unknown("array equality")
            return a == b
        if k == Z3_OP_DISTINCT:
            vs = [ev(c) for c in ch]
            return len(set(vs)) == len(vs)
        if k == Z3_OP_ULT:
            return ev(ch[0]) < ev(ch[1])
        if k == Z3_OP_ULEQ:
            return ev(ch[0]) <= ev(ch[1])
        if k == Z3_OP_UGT:
            return ev(ch[0]) > ev(ch[1])
        if k == Z3_OP_UGEQ:
            return ev(ch[0]) >= ev(ch[1])
        if k in (Z3_OP_SLT, Z3_OP_SLEQ, Z3_OP_SGT, Z3_OP_SGEQ):
            w = ch[0].size()
            a, b = to_signed(ev(ch[0]), w), to_signed(ev(ch[1]), w)
            return {Z3_OP_SLT: a < b, Z3_OP_SLEQ: a <= b, Z3_OP_SGT: a > b, Z3_OP_SGEQ: a >= b}[k]
        if k == Z3_OP_AND:
            return all(ev(c) for c in ch)
        if k == Z3_OP_OR:
            return any(ev(c) for c in ch)
        if k == Z3_OP_NOT:
            return not ev(ch[0])
        if k == Z3_OP_XOR:
            r = False
            for c in ch:
                r ^= bool(ev(c))
            return r
        if k == Z3_OP_IMPLIES:
            return (not ev(ch[0])) or ev(ch[1])
        if k == Z3_OP_SELECT:
            a = ev(ch[0])
            idx = tuple(ev(c) for c in ch[1:])
            return a.get(idx)
        if k == Z3_OP_STORE:
            a = ev(ch[0])
            idx = tuple(ev(c) for c in ch[1:-1])
            return a.set(idx, ev(ch[-1]))
        if k == Z3_OP_CONST_ARRAY:
            v = ev(ch[0])
            return Arr(lambda idx, v=v: v)
        raise Unknown(f"unsupported z3 op {d.name()} kind={k}")


def std_func(name: str):
    """standard interpretation of halmos' uninterpreted functions (None if there is none)"""
    import re

    m = re.fullmatch(r"f_evm_bv(udiv|urem|sdiv|srem|mul)_(\d+)", name)
    if m:
        op, n = m.group(1), int(m.group(2))
        M = 1 << n
        if op == "mul":
            return lambda a, b: a * b % M
        if op == "udiv":
            return lambda a, b: 0 if b == 0 else a // b
        if op == "urem":
            return lambda a, b: 0 if b == 0 else a % b
        if op == "sdiv":
            return lambda a, b: _sdiv(a, b, n) or 0
        if op == "srem":
            return lambda a, b: _srem(a, b, n) or 0
    if name == "f_evm_exp_256":
        return lambda a, b: pow(a, b, 1 << 256)
    m = re.fullmatch(r"f_sha3_(\d+)", name)
    if m:
        nbits = int(m.group(1))
        return lambda a: keccak(a.to_bytes(nbits // 8, "big"))
    if name == "f_sha3_0":
        return lambda: keccak(b"")
    return None


def evaluate(term, env=None, **kw):
    """term: z3 expr, python int or bool"""
    if isinstance(term, bool | int):
        return term
    return Evaluator(env, **kw).ev(term)
